------------------------------- MODULE BitsObj -------------------------------
(***************************************************************************)
(* The pymtl3 `Bits` object (pymtl3/datatypes/PythonBits.py and the        *)
(* helpers of pymtl3/datatypes/helpers.py) as a specification.             *)
(* Properties C04 (arithmetic exact modulo 2^n, no silent truncation) and  *)
(* C05 (slices / concat / extension / reductions / clog2 address exactly   *)
(* the named bits).                                                        *)
(*                                                                         *)
(* ENCODINGS (shared with the harness, harness/bitsobj_lib.py)             *)
(*   operand  [k |-> "bits", neg |-> FALSE, w, d]   a Bits value (BV limbs)*)
(*            [k |-> "int",  neg, w, d]             a Python int: sign and *)
(*                                                  magnitude as BV limbs  *)
(*   index    <<>> = None,  <<i>> = the integer i   (slice bounds, steps)  *)
(*   outcome  [k, neg, w, d] with k =                                      *)
(*              "ok"   a Bits result of width w, limbs d                   *)
(*              "int"  a Python int (sign, canonical magnitude)            *)
(*              "bool" a Python bool (d = <<0>> or <<1>>)                  *)
(*              "unit" a mutator that returned normally                    *)
(*              "err"  an exception was raised                             *)
(*   state    [w, d, nxt |-> [some, d]]   _nbits, _uint, _next (some=FALSE *)
(*                                        before the first <<=)            *)
(*   An operator returns  [any |-> BOOLEAN, outs |-> set of outcomes]:     *)
(*   every outcome the property statement admits; any = TRUE where the     *)
(*   statement says nothing (// and % by zero, reflected shifts            *)
(*   `int << Bits`, zext/sext to a narrower and trunc to a wider type,     *)
(*   concat beyond 1023 bits, clog2 of N <= 0).  A shift amount of another *)
(*   width (a Bits of a different width, or a non-negative int that does   *)
(*   not fit the left width) may raise or give the left-width result.      *)
(*   Mutators return a set of <<outcome, next state>> pairs.               *)
(*                                                                         *)
(* RULES (from the statement)                                              *)
(*   binary op, two Bits: widths differ -> err; int operand: outside       *)
(*   [0, 2^w) -> err; result = mathematical result mod 2^w at the width of *)
(*   the Bits operand, comparisons a 1-bit value; constructor, @=, <<=     *)
(*   accept exactly -2^(w-1) .. 2^w-1 (two's complement for negatives) and *)
(*   a Bits of exactly the same width; x[i] / x[lo:hi] valid iff           *)
(*   0 <= lo < hi <= w (None = 0 / w), any step (even 0) or bound outside  *)
(*   -> err; a Bits value wider than the slice, or an int outside          *)
(*   [-2^(s-1), 2^s), -> err; writes change exactly bits lo..hi-1.         *)
(*                                                                         *)
(* The module is also a behaviour specification (Init / Next over the      *)
(* variables st, res) that TLC model-checks for small widths; its state    *)
(* graph is replayed transition by transition on the real class.           *)
(*                                                                         *)
(* OBJECT IDENTITY.  This module describes ONE object and the outcome of   *)
(* ONE call.  Bits objects are mutable in place, so two more rules are     *)
(* needed to give "returns the mathematically defined value" a meaning     *)
(* over a whole history: every operation returning a Bits value returns a  *)
(* NEW object, and a mutator changes its own object only.  They are        *)
(* modelled by spec/BitsHeap.tla (a heap of objects, INSTANCE of this      *)
(* module per object) and checked on logged histories over several live    *)
(* objects by spec/BitsObjTrace.tla.                                       *)
(***************************************************************************)
EXTENDS Integers, Sequences, FiniteSets, TLC

B == INSTANCE BV WITH LB <- 15

CONSTANTS Ws,       \* widths of the modelled object, e.g. {1, 2}
          VWs,      \* widths of Bits operands offered to the mutators, e.g. {1, 2, 3}
          IMax,     \* int operands range over -IMax .. IMax
          Acts      \* enabled actions, subset of {"new","assign","nbassign","flip","setbit","setslice"}

VARIABLES st, res
vars == <<st, res>>

MaxW == 1023

---------------------------------------------------------------------------
\* encodings

BVof(x)      == [w |-> x.w, d |-> x.d]
Canon(bv)    == LET L == B!BitLen(bv) IN B!Resize(bv, IF L = 0 THEN 1 ELSE L)
BitsOp(bv)   == [k |-> "bits", neg |-> FALSE, w |-> bv.w, d |-> bv.d]
IntOp(neg, m) == LET c == Canon(m) IN [k |-> "int", neg |-> neg /\ ~B!IsZero(m), w |-> c.w, d |-> c.d]
OkBits(bv)   == [k |-> "ok", neg |-> FALSE, w |-> bv.w, d |-> bv.d]
OkInt(neg, m) == LET c == Canon(m) IN [k |-> "int", neg |-> neg /\ ~B!IsZero(m), w |-> c.w, d |-> c.d]
OkNat(n)     == OkInt(FALSE, B!FromNat(31, n))
OkBool(p)    == [k |-> "bool", neg |-> FALSE, w |-> 1, d |-> <<IF p THEN 1 ELSE 0>>]
Unit         == [k |-> "unit", neg |-> FALSE, w |-> 1, d |-> <<0>>]
Err          == [k |-> "err", neg |-> FALSE, w |-> 1, d |-> <<0>>]
Bit1(p)      == OkBits(B!FromNat(1, IF p THEN 1 ELSE 0))

SameOut(o1, o2) == o1.k = o2.k /\ o1.neg = o2.neg /\ o1.w = o2.w /\ o1.d = o2.d

Det(o)         == [any |-> FALSE, outs |-> {o}]
Either(o1, o2) == [any |-> FALSE, outs |-> {o1, o2}]
Open            == [any |-> TRUE, outs |-> {}]

None      == <<>>
IsNone(i) == Len(i) = 0

NoNext       == [some |-> FALSE, d |-> <<>>]
MkState(bv)  == [w |-> bv.w, d |-> bv.d, nxt |-> NoNext]
SelfOp(s)    == [k |-> "bits", neg |-> FALSE, w |-> s.w, d |-> s.d]

---------------------------------------------------------------------------
\* Python ints

IntNeg(x)      == x.neg /\ ~B!IsZero(BVof(x))
\* 0 <= x < 2^w
IntFitsU(x, w) == ~IntNeg(x) /\ B!BitLen(BVof(x)) <= w
\* -2^(w-1) <= x < 2^w
IntFitsS(x, w) == IF IntNeg(x) THEN B!Le(BVof(x), B!Pow2(w, w - 1)) ELSE B!BitLen(BVof(x)) <= w
\* x mod 2^w
IntMod(x, w)   == IF IntNeg(x) THEN B!Neg(B!Resize(BVof(x), w)) ELSE B!Resize(BVof(x), w)
\* the signed (two's complement) reading of a vector, as a Python int
SignedInt(bv)  == IF B!IsNegative(bv) THEN OkInt(TRUE, B!Abs2c(bv)) ELSE OkInt(FALSE, bv)

---------------------------------------------------------------------------
\* C04: binary operators

Arith  == {"add", "sub", "mul", "floordiv", "mod", "and", "or", "xor"}
Shifts == {"lshift", "rshift"}
Cmps   == {"eq", "ne", "lt", "le", "gt", "ge"}
BinOps == Arith \cup Shifts \cup Cmps

\* l op r;  l, r of equal width except for shifts, where r is the amount (any width)
Compute(op, l, r) ==
    CASE op = "add"      -> OkBits(B!Add(l, r))
      [] op = "sub"      -> OkBits(B!Sub(l, r))
      [] op = "mul"      -> OkBits(B!Mul(l, r))
      [] op = "floordiv" -> OkBits(B!Div(l, r))
      [] op = "mod"      -> OkBits(B!Mod(l, r))
      [] op = "and"      -> OkBits(B!And(l, r))
      [] op = "or"       -> OkBits(B!Or(l, r))
      [] op = "xor"      -> OkBits(B!Xor(l, r))
      [] op = "lshift"   -> OkBits(IF B!GeNat(r, l.w) THEN B!Zero(l.w) ELSE B!Shl(l, B!ToNat(r)))
      [] op = "rshift"   -> OkBits(IF B!GeNat(r, l.w) THEN B!Zero(l.w) ELSE B!Shr(l, B!ToNat(r)))
      [] op = "eq"       -> Bit1(B!Eq(l, r))
      [] op = "ne"       -> Bit1(~B!Eq(l, r))
      [] op = "lt"       -> Bit1(B!Lt(l, r))
      [] op = "le"       -> Bit1(B!Le(l, r))
      [] op = "gt"       -> Bit1(B!Lt(r, l))
      [] op = "ge"       -> Bit1(B!Le(r, l))

DivGuard(op, l, r) == IF op \in {"floordiv", "mod"} /\ B!IsZero(r) THEN Open ELSE Det(Compute(op, l, r))

\* x is the Bits operand, y the other one (Bits or int); refl: the expression was  y op x
BinOuts(op, refl, x, y) ==
    LET xb == BVof(x)
    IN  IF y.k = "bits"
        THEN IF y.w = x.w THEN DivGuard(op, xb, BVof(y))
             ELSE IF op \in Shifts THEN Either(Err, Compute(op, xb, BVof(y)))
             ELSE Det(Err)
        ELSE IF refl /\ op \in Shifts THEN Open
             ELSE IF IntFitsU(y, x.w)
                  THEN LET yb == B!Resize(BVof(y), x.w)
                       IN  IF refl THEN DivGuard(op, yb, xb) ELSE DivGuard(op, xb, yb)
             ELSE IF op \in Shifts /\ ~IntNeg(y) THEN Either(Err, Compute(op, xb, BVof(y)))
             ELSE Det(Err)

\* x // y and x % y observed together (cheap to check for wide operands): TRUE iff the pair is admitted
DivModAdmits(refl, x, y, oq, orr) ==
    LET fits == y.k = "bits" \/ IntFitsU(y, x.w)
        yb   == B!Resize(BVof(y), x.w)
        l    == IF refl THEN yb ELSE BVof(x)
        r    == IF refl THEN BVof(x) ELSE yb
    IN  IF (y.k = "bits" /\ y.w # x.w) \/ ~fits THEN oq.k = "err" /\ orr.k = "err"
        ELSE IF B!IsZero(r) THEN TRUE
        ELSE /\ oq.k = "ok" /\ orr.k = "ok" /\ oq.w = x.w /\ orr.w = x.w
             /\ B!IsBV(BVof(oq)) /\ B!IsBV(BVof(orr))
             /\ B!IsQuotRem(l, r, BVof(oq), BVof(orr))

UnaryOps == {"invert", "int", "uint", "pyint", "index", "bool", "nbits", "clone", "deepcopy"}
UnOuts(op, x) ==
    LET xb == BVof(x)
    IN  CASE op = "invert" -> Det(OkBits(B!Not(xb)))
          [] op = "int"    -> Det(SignedInt(xb))
          [] op \in {"uint", "pyint", "index"} -> Det(OkInt(FALSE, xb))
          [] op = "bool"   -> Det(OkBool(~B!IsZero(xb)))
          [] op = "nbits"  -> Det(OkNat(x.w))
          [] op \in {"clone", "deepcopy"} -> Det(OkBits(xb))       \* x.clone(), copy.deepcopy(x)

\* hash(x) == hash(y) must hold for equal values of equal width; otherwise open
HashEqOuts(x, y) == IF x.w = y.w /\ x.d = y.d THEN Det(OkBool(TRUE)) ELSE Either(OkBool(TRUE), OkBool(FALSE))

---------------------------------------------------------------------------
\* C05: reading bits, helpers

ValidRange(w, lo, hi) == 0 <= lo /\ lo < hi /\ hi <= w
Lo(lo)    == IF IsNone(lo) THEN 0 ELSE lo[1]
Hi(w, hi) == IF IsNone(hi) THEN w ELSE hi[1]

GetBitOuts(x, i) ==
    IF 0 <= i /\ i < x.w THEN Det(OkBits(B!Slice(BVof(x), i, i + 1))) ELSE Det(Err)

GetSliceOuts(x, lo, hi, step) ==
    IF ~IsNone(step) THEN Det(Err)
    ELSE IF ValidRange(x.w, Lo(lo), Hi(x.w, hi)) THEN Det(OkBits(B!Slice(BVof(x), Lo(lo), Hi(x.w, hi))))
    ELSE Det(Err)

SumW(xs) == LET S[i \in 0..Len(xs)] == IF i = 0 THEN 0 ELSE S[i - 1] + xs[i].w IN S[Len(xs)]
ConcatOuts(xs) ==
    IF Len(xs) = 0 \/ SumW(xs) > MaxW THEN Open
    ELSE Det(OkBits(B!ConcatSeq([i \in 1..Len(xs) |-> BVof(xs[i])])))

ZextOuts(x, n)  == IF x.w <= n /\ n <= MaxW THEN Det(OkBits(B!Zext(BVof(x), n))) ELSE Open
SextOuts(x, n)  == IF x.w <= n /\ n <= MaxW THEN Det(OkBits(B!Sext(BVof(x), n))) ELSE Open
TruncOuts(x, n) == IF 1 <= n /\ n <= x.w THEN Det(OkBits(B!Trunc(BVof(x), n))) ELSE Open
RedOuts(op, x) ==
    CASE op = "reduce_and" -> Det(Bit1(B!RedAnd(BVof(x)) = 1))
      [] op = "reduce_or"  -> Det(Bit1(B!RedOr(BVof(x)) = 1))
      [] op = "reduce_xor" -> Det(Bit1(B!RedXor(BVof(x)) = 1))
Clog2Outs(N) == IF IntNeg(N) \/ B!IsZero(BVof(N)) THEN Open ELSE Det(OkNat(B!Clog2(BVof(N))))

---------------------------------------------------------------------------
\* mutators: sets of <<outcome, next state>>

\* acceptance of a value for an s-bit target: <<accepted?, optional?, vector>>
\*   a Bits of width s, or an int in [0, 2^s): accepted; an int in [-2^(s-1), 0): accepted (two's complement)
AcceptAssign(v, s) ==
    IF v.k = "bits" THEN IF v.w = s THEN <<TRUE, BVof(v)>> ELSE <<FALSE, B!Zero(s)>>
    ELSE IF IntFitsS(v, s) THEN <<TRUE, IntMod(v, s)>> ELSE <<FALSE, B!Zero(s)>>

NewOuts(w, v, trunc) ==
    IF v.k = "int" /\ trunc THEN {<<Unit, MkState(IntMod(v, w))>>}
    ELSE LET a == AcceptAssign(v, w) IN IF a[1] THEN {<<Unit, MkState(a[2])>>} ELSE {<<Err, MkState(B!Zero(w))>>}
         \* (after a failed construction there is no object; the state component is not used)

AssignOuts(s, v) ==
    LET a == AcceptAssign(v, s.w) IN IF a[1] THEN {<<Unit, [s EXCEPT !.d = a[2].d]>>} ELSE {<<Err, s>>}

NbAssignOuts(s, v) ==
    LET a == AcceptAssign(v, s.w)
    IN  IF a[1] THEN {<<Unit, [s EXCEPT !.nxt = [some |-> TRUE, d |-> a[2].d]]>>} ELSE {<<Err, s>>}

FlipOuts(s) == IF s.nxt.some THEN {<<Unit, [s EXCEPT !.d = s.nxt.d]>>} ELSE {}     \* no pending value: not specified

\* write v into bits lo..hi-1 (range already valid)
Written(s, lo, hi, bv) == <<Unit, [s EXCEPT !.d = B!SetSlice(BVof(s), lo, hi, bv).d]>>
SetRangeOuts(s, lo, hi, v) ==
    LET n == hi - lo
    IN  IF v.k = "bits"
        THEN IF v.w = n THEN {Written(s, lo, hi, BVof(v))}
             ELSE IF v.w > n THEN {<<Err, s>>}
             ELSE {<<Err, s>>, Written(s, lo, hi, B!Zext(BVof(v), n))}     \* narrower: error or zero extension
        ELSE IF IntFitsU(v, n) THEN {Written(s, lo, hi, IntMod(v, n))}
             ELSE IF IntFitsS(v, n) THEN {<<Err, s>>, Written(s, lo, hi, IntMod(v, n))}   \* negative, fits signed
             ELSE {<<Err, s>>}

SetBitOuts(s, i, v) ==
    IF 0 <= i /\ i < s.w THEN SetRangeOuts(s, i, i + 1, v) ELSE {<<Err, s>>}

SetSliceOuts(s, lo, hi, step, v) ==
    IF ~IsNone(step) THEN {<<Err, s>>}
    ELSE IF ValidRange(s.w, Lo(lo), Hi(s.w, hi)) THEN SetRangeOuts(s, Lo(lo), Hi(s.w, hi), v)
    ELSE {<<Err, s>>}

---------------------------------------------------------------------------
\* behaviour specification for small widths

NatBV(w, n) == B!FromNat(w, n)
BitsVals(ws) == UNION {{BitsOp(NatBV(w, n)) : n \in 0..(2^w - 1)} : w \in ws}
IntVals      == {IntOp(i < 0, NatBV(31, IF i < 0 THEN -i ELSE i)) : i \in (-IMax)..IMax}
Vals         == BitsVals(VWs) \cup IntVals
MaxWs        == CHOOSE w \in Ws : \A v \in Ws : v <= w
Idxs         == (-2)..(MaxWs + 1)
Bounds       == {None} \cup {<<i>> : i \in (-1)..(MaxWs + 1)}
Steps        == {None, <<0>>, <<1>>, <<2>>, <<-1>>}

R(a, o) == [act |-> a, out |-> o]

Init == /\ st \in {MkState(B!Zero(w)) : w \in Ws}
        /\ res = R("new", Unit)

New(w, v, trunc) ==
    /\ "new" \in Acts
    /\ \E p \in NewOuts(w, v, trunc) :
          /\ res' = R("new", p[1])
          /\ st' = IF p[1].k = "err" THEN st ELSE p[2]       \* a failed constructor leaves the old object
Assign(v)   == "assign" \in Acts   /\ \E p \in AssignOuts(st, v)   : res' = R("assign", p[1])   /\ st' = p[2]
NbAssign(v) == "nbassign" \in Acts /\ \E p \in NbAssignOuts(st, v) : res' = R("nbassign", p[1]) /\ st' = p[2]
Flip        == "flip" \in Acts     /\ \E p \in FlipOuts(st)        : res' = R("flip", p[1])     /\ st' = p[2]
SetBit(i, v) == "setbit" \in Acts  /\ \E p \in SetBitOuts(st, i, v) : res' = R("setbit", p[1])  /\ st' = p[2]
SetSlice(lo, hi, step, v) ==
    /\ "setslice" \in Acts
    /\ \E p \in SetSliceOuts(st, lo, hi, step, v) : res' = R("setslice", p[1]) /\ st' = p[2]

Next == \/ \E w \in Ws, v \in Vals, t \in BOOLEAN : New(w, v, t)
        \/ \E v \in Vals : Assign(v)
        \/ \E v \in Vals : NbAssign(v)
        \/ Flip
        \/ \E i \in Idxs, v \in Vals : SetBit(i, v)
        \/ \E lo \in Bounds, hi \in Bounds, v \in Vals : SetSlice(lo, hi, None, v)
        \/ \E lo \in Bounds, hi \in Bounds, s \in Steps \ {None} : SetSlice(lo, hi, s, BitsOp(NatBV(1, 1)))

Spec == Init /\ [][Next]_vars

\* ---- properties checked by TLC
\* a stored value always lies in [0, 2^n): both _uint and the pending _next are well-formed vectors of width w
StoredInRange == /\ st.w \in Ws
                 /\ B!IsBV(BVof(st))
                 /\ st.nxt.some => B!IsBV([w |-> st.w, d |-> st.nxt.d])
\* an operation that raises changes nothing
ErrorsChangeNothing == [][res'.out.k = "err" => st' = st]_vars
\* only the constructor sets the width
WidthStable   == [][res'.act # "new" => st'.w = st.w]_vars
\* <<= never touches the current value; _flip installs exactly the pending one
NbKeepsValue  == [][res'.act = "nbassign" => st'.d = st.d]_vars
FlipInstalls  == [][res'.act = "flip" => st'.d = st.nxt.d /\ st'.nxt = st.nxt]_vars
\* item assignment never changes the pending value, and changes the value only inside the object's width
SetKeepsNext  == [][res'.act \in {"setbit", "setslice", "assign"} => st'.nxt = st.nxt]_vars
=============================================================================
