-------------------------------- MODULE Fifo --------------------------------
(***************************************************************************)
(* Library queues (pymtl3/stdlib/queues/*.py, stdlib/stream/queues.py),    *)
(* property C17.                                                           *)
(*                                                                         *)
(* State: the sequence `q` of stored messages (head first).  ONE action    *)
(* per simulated clock cycle: Cycle(eo, m, do) -- the producer offers      *)
(* message m iff eo, the consumer offers to take a message iff do.  From   *)
(* `q` alone the action computes the ready/valid outputs of the queue      *)
(* kind, the two transfer bits, the delivered message, the occupancy       *)
(* count, and q'.  `out` holds the observable outputs of the last cycle;   *)
(* `accepted` / `delivered` are history variables (every message ever      *)
(* accepted / delivered since the last reset), hidden from the state space *)
(* by the VIEW in exhaustive runs.                                         *)
(*                                                                         *)
(*   normal : enq_rdy = ~full            deq_rdy = ~empty                  *)
(*   pipe   : enq_rdy = ~full \/ deq happens this cycle                    *)
(*   bypass : deq_rdy = ~empty \/ enq happens this cycle                   *)
(*                                                                         *)
(* The pure operators take (kind, cap) as parameters so that FifoTrace     *)
(* validates traces of queues of many kinds / capacities in one TLC run.   *)
(***************************************************************************)
EXTENDS Integers, Sequences

CONSTANTS Kind,     \* "normal" | "pipe" | "bypass"
          Cap,      \* capacity (>= 1)
          Msgs      \* message alphabet

VARIABLES q, out, accepted, delivered
vars == <<q, out, accepted, delivered>>

---------------------------------------------------------------------------
\* Pure definitions (parameterised by kind k and capacity c)

Kinds == {"normal", "pipe", "bypass"}

Full(c, s)  == Len(s) >= c
Empty(s)    == Len(s) = 0

\* dequeue-side valid/ready and transfer when the enqueue transfer bit is ex
DeqRdyGiven(k, s, ex) == ~Empty(s) \/ (k = "bypass" /\ ex)
\* enqueue-side ready when the dequeue transfer bit is dx
EnqRdyGiven(k, c, s, dx) == ~Full(c, s) \/ (k = "pipe" /\ dx)

\* The combinational order the kind implies: a pipe queue decides the dequeue
\* side first (from q alone), a bypass queue the enqueue side first; for a
\* normal queue neither side looks at the other.
DeqXfer(k, c, s, eo, do) ==
    IF k = "bypass"
    THEN do /\ DeqRdyGiven(k, s, eo /\ ~Full(c, s))
    ELSE do /\ ~Empty(s)
EnqXfer(k, c, s, eo, do) ==
    IF k = "pipe"
    THEN eo /\ EnqRdyGiven(k, c, s, do /\ ~Empty(s))
    ELSE eo /\ ~Full(c, s)
EnqRdy(k, c, s, eo, do) == EnqRdyGiven(k, c, s, DeqXfer(k, c, s, eo, do))
DeqRdy(k, c, s, eo, do) == DeqRdyGiven(k, s, EnqXfer(k, c, s, eo, do))

\* the message on the dequeue port when deq_rdy: the head, or the offered
\* message when it bypasses through an empty queue
DeqMsg(s, m) == IF Empty(s) THEN m ELSE Head(s)

\* next contents: the order of append / pop is irrelevant for a sequence
\* (pipe at full pops first, bypass at empty appends first; the result is
\* the same value)
NextQ(k, c, s, eo, m, do) ==
    LET s1 == IF EnqXfer(k, c, s, eo, do) THEN Append(s, m) ELSE s
    IN  IF DeqXfer(k, c, s, eo, do) THEN Tail(s1) ELSE s1

\* all observable outputs of one cycle (count is the occupancy before the
\* clock edge, count2 after it)
Outputs(k, c, s, eo, m, do) ==
    [ enq_rdy  |-> EnqRdy(k, c, s, eo, do),
      deq_rdy  |-> DeqRdy(k, c, s, eo, do),
      enq_xfer |-> EnqXfer(k, c, s, eo, do),
      deq_xfer |-> DeqXfer(k, c, s, eo, do),
      count    |-> Len(s),
      count2   |-> Len(NextQ(k, c, s, eo, m, do)),
      \* meaningful only when deq_rdy
      deq_msg  |-> IF DeqRdy(k, c, s, eo, do) THEN <<DeqMsg(s, m)>> ELSE <<>> ]

IdleOut == [ enq_rdy |-> TRUE, deq_rdy |-> FALSE, enq_xfer |-> FALSE, deq_xfer |-> FALSE,
             count |-> 0, count2 |-> 0, deq_msg |-> <<>> ]

---------------------------------------------------------------------------
\* State machine

Init == /\ q = <<>> /\ out = IdleOut
        /\ accepted = <<>> /\ delivered = <<>>

Cycle(eo, m, do) ==
    /\ q'   = NextQ(Kind, Cap, q, eo, m, do)
    /\ out' = Outputs(Kind, Cap, q, eo, m, do)
    /\ accepted'  = IF EnqXfer(Kind, Cap, q, eo, do) THEN Append(accepted, m) ELSE accepted
    /\ delivered' = IF DeqXfer(Kind, Cap, q, eo, do) THEN Append(delivered, DeqMsg(q, m))
                                                    ELSE delivered

Reset == /\ q' = <<>> /\ out' = IdleOut
         /\ accepted' = <<>> /\ delivered' = <<>>

\* an idle producer carries no message: m is only quantified when eo
AnyMsg == CHOOSE x \in Msgs : TRUE
Next == \/ \E eo \in BOOLEAN :
              \E m \in (IF eo THEN Msgs ELSE {AnyMsg}), do \in BOOLEAN : Cycle(eo, m, do)
        \/ Reset

Spec == Init /\ [][Next]_vars

\* exhaustive runs: the histories are not part of the explored state
View == <<q, out>>

\* bounded variant that keeps the histories in the state (exact check of
\* the prefix / conservation invariants on all histories up to MaxHist
\* accepted messages since the last reset)
CONSTANT MaxHist
HistBound == Len(accepted) <= MaxHist

---------------------------------------------------------------------------
\* Properties (C17)

TypeOK == /\ q \in Seq(Msgs) /\ Kind \in Kinds
          /\ out.count \in 0 .. Cap /\ out.count2 = Len(q)

\* occupancy never exceeds the capacity
Bounded == Len(q) <= Cap

IsPrefix(a, b) == Len(a) <= Len(b) /\ \A i \in 1 .. Len(a) : a[i] = b[i]

\* nothing lost, duplicated, reordered or invented
DeliveredPrefix == IsPrefix(delivered, accepted)
Conservation    == accepted = delivered \o q

\* ready / valid exactly as the kind says (stated independently of the
\* operators above, on the outputs of the last cycle and the count before it)
RdyValExact ==
    LET full  == out.count = Cap
        empty == out.count = 0 IN
    /\ out.enq_rdy = (~full \/ (Kind = "pipe" /\ out.deq_xfer))
    /\ out.deq_rdy = (~empty \/ (Kind = "bypass" /\ out.enq_xfer))
    /\ out.enq_xfer => out.enq_rdy
    /\ out.deq_xfer => out.deq_rdy
    /\ (Kind = "normal") => (out.enq_rdy = ~full /\ out.deq_rdy = ~empty)

\* a transfer moves exactly one message; the count follows the transfers
CountExact ==
    out.count2 = out.count + (IF out.enq_xfer THEN 1 ELSE 0) - (IF out.deq_xfer THEN 1 ELSE 0)

\* per-step: a delivered message is the oldest stored one (or the bypassing one)
StepFifo == [][ /\ (out'.deq_xfer /\ q # <<>>) => (out'.deq_msg = <<Head(q)>>)
                /\ (out'.deq_xfer /\ q = <<>>) => (Kind = "bypass" /\ out'.enq_xfer /\ q' = <<>>)
                /\ (~out'.deq_xfer /\ ~out'.enq_xfer /\ out'.count2 = Len(q)) => q' = q
              ]_vars
=============================================================================
