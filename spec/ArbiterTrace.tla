--------------------------- MODULE ArbiterTrace ---------------------------
(***************************************************************************)
(* Trace validation for C19: histories recorded from the real              *)
(* RoundRobinArbiter / RoundRobinArbiterEn are checked to be behaviours of *)
(* Arbiter.tla.  One TLC run validates a batch of traces (variable `tid`   *)
(* picks the trace, `l` is the position in it).  Every event action is     *)
(* total: a mismatch sets `err` to the name of the failing clause instead  *)
(* of disabling the action, and Finish prints one verdict per trace.       *)
(*                                                                         *)
(* Trace := [n, hasEn, ev: Seq(Event)]                                     *)
(* Event := [k |-> "reset", ptr]                                           *)
(*        | [k |-> "cycle", reqs: Seq(Nat), en: BOOLEAN,                   *)
(*           grants: Seq(Nat)  (indices of set grant bits, after           *)
(*                              sim_eval_combinational),                   *)
(*           ptr: Int]         (index of the set bit of priority_reg.out   *)
(*                              after sim_tick; -1 if it is not one-hot)   *)
(***************************************************************************)
EXTENDS Naturals, Integers, Sequences, FiniteSets, TLC, Json, IOUtils

A == INSTANCE Arbiter WITH N <- 2, HasEn <- TRUE, ptr <- 0, reqs <- {}, grants <- {}, wait <- <<>>
   \* only the parameterised pure operators of Arbiter are used here

Input  == JsonDeserialize(IOEnv.VERIF_INPUT)
Traces == Input.traces

VARIABLES tid, l, err, fin, ptr, wait
tvars == <<tid, l, err, fin, ptr, wait>>

T      == Traces[tid]
Ev     == T.ev[l]
ToSet(s) == {s[i] : i \in DOMAIN s}

Init == /\ tid \in 1 .. Len(Traces)
        /\ l = 1 /\ err = "ok" /\ fin = FALSE
        /\ ptr = 0
        /\ wait = [i \in A!Inputs(Traces[tid].n) |-> 0]

Fail(c) == err' = c /\ UNCHANGED <<tid, l, fin, ptr, wait>>

ResetEv ==
    /\ Ev.k = "reset"
    /\ LET R == ToSet(Ev.reqs)
           G == ToSet(Ev.grants)
       IN  IF ~(R \subseteq A!Inputs(T.n))                 THEN Fail("bad-trace-reqs")
           ELSE IF G # A!Grant(T.n, ptr, R)                THEN Fail("wrong-winner-during-reset")
           ELSE IF Ev.ptr # 0                              THEN Fail("reset-does-not-restore-priority-0")
           ELSE /\ ptr' = 0 /\ wait' = [i \in A!Inputs(T.n) |-> 0]
                /\ l' = l + 1 /\ UNCHANGED <<tid, err, fin>>

CycleEv ==
    /\ Ev.k = "cycle"
    /\ LET R  == ToSet(Ev.reqs)
           G  == ToSet(Ev.grants)
           en == Ev.en
           w2 == A!NextWait(T.n, T.hasEn, ptr, wait, R, en)
       IN  IF ~(R \subseteq A!Inputs(T.n))                 THEN Fail("bad-trace-reqs")
           ELSE IF Cardinality(G) > 1                      THEN Fail("more-than-one-grant")
           ELSE IF ~(G \subseteq R)                        THEN Fail("grant-to-non-requester")
           ELSE IF (G = {}) # (R = {})                     THEN Fail("grant-iff-request")
           ELSE IF G # A!Grant(T.n, ptr, R)                THEN Fail("wrong-winner")
           ELSE IF Ev.ptr # A!NextPtr(T.n, T.hasEn, ptr, R, en) THEN Fail("wrong-next-priority")
           ELSE IF \E i \in A!Inputs(T.n) : w2[i] > T.n - 1 THEN Fail("starvation")
           ELSE /\ ptr' = Ev.ptr /\ wait' = w2
                /\ l' = l + 1 /\ UNCHANGED <<tid, err, fin>>

Other == /\ Ev.k \notin {"reset", "cycle"} /\ Fail("unknown-event")

Finish == /\ ~fin /\ (err # "ok" \/ l > Len(T.ev))
          /\ PrintT(<<"V", tid, err, l>>)
          /\ fin' = TRUE /\ UNCHANGED <<tid, l, err, ptr, wait>>

Next == \/ /\ ~fin /\ err = "ok" /\ l <= Len(T.ev)
           /\ (ResetEv \/ CycleEv \/ Other)
        \/ Finish

Spec == Init /\ [][Next]_tvars
=============================================================================
