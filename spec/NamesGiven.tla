---------------------------- MODULE NamesGiven ----------------------------
(***************************************************************************)
(* C14: the invariants of Names.tla on shapes handed in by the harness     *)
(* (randomly drawn members of the family that are too large for the        *)
(* exhaustive enumeration).  Every given shape is one initial state;       *)
(* ShapeOK (part of AllInv) decides whether it belongs to the family.      *)
(* Input: IOEnv.VERIF_INPUT = path of {"shapes": [[decl, ment], ...]}.     *)
(***************************************************************************)
EXTENDS Names, Json, IOUtils

Given     == JsonDeserialize(IOEnv.VERIF_INPUT).shapes
InitGiven == \E i \in 1 .. Len(Given) : decl = Given[i].decl /\ ment = Range(Given[i].ment)
Stay      == UNCHANGED vars
SpecGiven == InitGiven /\ [][Stay]_vars
=============================================================================
