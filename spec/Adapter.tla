------------------------------ MODULE Adapter ------------------------------
(***************************************************************************)
(* The interface adapters through which library queues are composed        *)
(* (property C17): pymtl3/stdlib/ifcs/send_recv_ifcs.py, get_give_ifcs.py, *)
(* stdlib/stream/queue_adapters.py.  Every adapter is a channel with a     *)
(* 0- or 1-entry buffer between a producer and a consumer of different     *)
(* interface levels (RTL ports / CL non-blocking methods / FL blocking     *)
(* methods).  The variable `kind` selects the adapter:                     *)
(*                                                                         *)
(*  kind     class               producer side         consumer side       *)
(*  cl2rtl   RecvCL2SendRTL      CL recv (callee)      RTL send en/rdy     *)
(*  cl2val   SendQueueAdapter    CL enq (callee)       RTL send val/rdy    *)
(*  rtl2cl   RecvRTL2SendCL      RTL recv en/rdy       CL send (caller)    *)
(*  and      GiveIfcRTL.connect( RecvIfcRTL ): the And gate                *)
(*                               RTL give en/rdy       RTL recv en/rdy     *)
(*  get2cl   GetRTL2GiveCL       RTL get (caller)      CL give (callee)    *)
(*  val2cl   RecvQueueAdapter    RTL recv val/rdy      CL deq (callee)     *)
(*  fl2cl    RecvFL2SendCL       FL recv (blocking)    CL send (caller)    *)
(*  fl2rtl   RecvFL2SendRTL      FL recv (blocking)    RTL send en/rdy     *)
(*  cl2fl    RecvCL2GiveFL       CL recv (callee)      FL give (blocking)  *)
(*  rtl2fl   RecvRTL2GiveFL      RTL recv en/rdy       FL give (blocking)  *)
(*                                                                         *)
(* State st = [entry, clr, pend, cwait]:                                   *)
(*   entry  the adapter's buffer `s.entry`: <<>> or <<msg>>                *)
(*   clr    the buffer was sent in the last cycle and is cleared at the    *)
(*          start of this one (cl2rtl, fl2rtl: `up_clear` reads last       *)
(*          cycle's send.en; cl2val: the register `sent`); the buffer is   *)
(*          LOGICALLY empty while clr holds                                *)
(*   pend   the message of an FL producer whose blocking call has not      *)
(*          returned yet (it lives in the caller's frame)                  *)
(*   cwait  an FL consumer is blocked inside give()                        *)
(*                                                                         *)
(* ONE action per clock cycle, Cycle(eo, m, do, rst): the producer offers  *)
(* message m iff eo, the consumer offers to take one iff do, rst = the     *)
(* component's reset input.  A blocked FL caller cannot withdraw or change *)
(* its offer: pend # <<>> => the offer is pend (eo must be FALSE: no new   *)
(* call can start); cwait => do.                                           *)
(*                                                                         *)
(* Intra-cycle order, as the constraints of each class fix it:             *)
(*   bypass order (cl2rtl, cl2val, get2cl, rtl2fl, fl2rtl, fl2cl): the     *)
(*     producer side runs first, the consumer sees the message in the      *)
(*     same cycle;                                                         *)
(*   pipe order (val2cl, cl2fl): the consumer side runs first, the slot it *)
(*     frees is ready for the producer in the same cycle.                  *)
(* fl2rtl leaves ONE order open: `up_clear` (the deferred clear) against   *)
(* the block that calls recv() -- the schedule decides; cfirst (ClearFirst)*)
(* is that decision, fixed for an elaborated design; both are admitted.    *)
(*                                                                         *)
(* The pure operator Step(k, cf, s, eo, m, do, rst) is used by Cycle and   *)
(* by AdapterTrace.                                                        *)
(***************************************************************************)
EXTENDS Integers, Sequences

CONSTANTS KindSet,     \* the kinds explored by one TLC run (a subset of Kinds)
          Msgs, MaxHist

\* kind and cfirst (= ClearFirst) never change: they are chosen in the initial state, so that ONE TLC
\* run explores / dumps the state graphs of all adapters
VARIABLES kind, cfirst, st, out, accepted, delivered
vars == <<kind, cfirst, st, out, accepted, delivered>>

F  == INSTANCE Fifo WITH Kind <- "normal", Cap <- 1, Msgs <- {}, MaxHist <- 0,
                         q <- <<>>, out <- <<>>, accepted <- <<>>, delivered <- <<>>
Ch == INSTANCE Channel WITH Caps <- {}, cap <- 0, Msgs <- {}, MaxHist <- 0,
                            q <- <<>>, accepted <- <<>>, delivered <- <<>>
   \* only the pure operators of the two modules are used

---------------------------------------------------------------------------
Kinds  == {"cl2rtl", "cl2val", "rtl2cl", "and", "get2cl", "val2cl", "fl2cl", "fl2rtl", "cl2fl", "rtl2fl"}
FLProd(k) == k \in {"fl2cl", "fl2rtl"}
FLCons(k) == k \in {"cl2fl", "rtl2fl"}
Wire(k)   == k \in {"rtl2cl", "and"}
\* capacity of the channel: the buffer, plus the frame of a blocked FL producer
CapOf(k)  == (IF Wire(k) \/ k = "fl2cl" THEN 0 ELSE 1) + (IF FLProd(k) THEN 1 ELSE 0)
\* the library queue kind the adapter is exactly a one-entry instance of (if any)
QueueKind(k) == CASE k \in {"cl2rtl", "cl2val", "get2cl", "rtl2fl"} -> "bypass"
                  [] k \in {"val2cl", "cl2fl"}                       -> "pipe"
                  [] OTHER                                           -> "none"

St0 == [entry |-> <<>>, clr |-> FALSE, pend |-> <<>>, cwait |-> FALSE]

Logical(s)  == IF s.clr THEN <<>> ELSE s.entry          \* contents of the buffer
InFlight(s) == Logical(s) \o s.pend                     \* oldest first
\* what the environment may do
Legal(s, eo, do) == (s.pend # <<>> => ~eo) /\ (s.cwait => do)
Offer(s, eo, m)  == IF s.pend # <<>> THEN s.pend ELSE IF eo THEN <<m>> ELSE <<>>

\* result of one cycle: next state; er = the adapter is ready for the producer, dr = it has a
\* message for the consumer, ex / dx = a message moves in / out (FL producer: ex = a call starts,
\* ret = a call returns), dm = the message on the consumer side
Res(e2, c2, p2, w2, er, dr, ex, dx, dm, ret) ==
    [ st |-> [entry |-> e2, clr |-> c2, pend |-> p2, cwait |-> w2],
      er |-> er, dr |-> dr, ex |-> ex, dx |-> dx, dm |-> dm, ret |-> ret ]

\* cl2rtl, cl2val: up_clear < recv < up_send; the buffer is cleared one cycle after it was sent
DefClrStep(s, eo, m, do) ==
    LET e1 == Logical(s)
        er == e1 = <<>>
        ex == eo /\ er
        e2 == IF ex THEN <<m>> ELSE e1
        dr == e2 # <<>>
        dx == dr /\ do
    IN  Res(e2, dx, <<>>, FALSE, er, dr, ex, dx, e2, FALSE)

\* rtl2cl (rdy = send.rdy() & ~reset), and (en = give.rdy & recv.rdy): no buffer
WireStep(eo, m, do, gate) ==
    LET er == do /\ ~gate
        ex == eo /\ er
    IN  Res(<<>>, FALSE, <<>>, FALSE, er, ex, ex, ex, IF ex THEN <<m>> ELSE <<>>, FALSE)

\* get2cl, rtl2fl: the producer side fills the empty buffer, then the consumer takes it (bypass)
BypassStep(s, eo, m, do, blocking) ==
    LET er == s.entry = <<>>
        ex == eo /\ er
        e2 == IF ex THEN <<m>> ELSE s.entry
        dr == e2 # <<>>
        dx == dr /\ do
    IN  Res(IF dx THEN <<>> ELSE e2, FALSE, <<>>, blocking /\ do /\ ~dx, er, dr, ex, dx, e2, FALSE)

\* val2cl, cl2fl: the consumer takes the buffer first, then the producer side refills it (pipe)
PipeStep(s, eo, m, do, blocking) ==
    LET dr == s.entry # <<>>
        dx == dr /\ do
        e1 == IF dx THEN <<>> ELSE s.entry
        er == e1 = <<>>
        ex == eo /\ er
    IN  Res(IF ex THEN <<m>> ELSE e1, FALSE, <<>>, blocking /\ do /\ ~dx, er, dr, ex, dx, s.entry, FALSE)

\* fl2cl: recv() spins until send.rdy(), then sends: the message waits in the caller's frame
Fl2ClStep(s, eo, m, do) ==
    LET off == Offer(s, eo, m)
        dx  == off # <<>> /\ do
    IN  Res(<<>>, FALSE, IF off # <<>> /\ ~dx THEN off ELSE <<>>, FALSE, do, dx, eo, dx, off, dx)

\* fl2rtl: recv() spins until the buffer is empty, then stores; up_clear / up_fl_send_rtl as cl2rtl
Fl2RtlStep(s, eo, m, do, cf) ==
    LET off   == Offer(s, eo, m)
        seen  == IF cf THEN Logical(s) ELSE s.entry      \* the buffer as the calling block finds it
        er    == seen = <<>>
        store == off # <<>> /\ er
        e2    == IF store THEN off ELSE Logical(s)
        dr    == e2 # <<>>
        dx    == dr /\ do
    IN  Res(e2, dx, IF off # <<>> /\ ~store THEN off ELSE <<>>, FALSE, er, dr, eo, dx, e2, store)

Step(k, cf, s, eo, m, do, rst) ==
    CASE k \in {"cl2rtl", "cl2val"} -> DefClrStep(s, eo, m, do)
      [] k = "rtl2cl"               -> WireStep(eo, m, do, rst)
      [] k = "and"                  -> WireStep(eo, m, do, FALSE)
      [] k = "get2cl"               -> BypassStep(s, eo, m, do, FALSE)
      [] k = "rtl2fl"               -> BypassStep(s, eo, m, do, TRUE)
      [] k = "val2cl"               -> PipeStep(s, eo, m, do, FALSE)
      [] k = "cl2fl"                -> PipeStep(s, eo, m, do, TRUE)
      [] k = "fl2cl"                -> Fl2ClStep(s, eo, m, do)
      [] k = "fl2rtl"               -> Fl2RtlStep(s, eo, m, do, cf)

\* observable outputs of one cycle (names as in Fifo.tla where the meaning is the same)
Outputs(k, cf, s, eo, m, do, rst) ==
    LET r == Step(k, cf, s, eo, m, do, rst) IN
    [ enq_rdy  |-> r.er,  deq_rdy |-> r.dr,
      enq_xfer |-> r.ex,  deq_xfer |-> r.dx,  ret |-> r.ret,
      deq_msg  |-> IF r.dx \/ (r.dr /\ ~Wire(k)) THEN r.dm ELSE <<>>,
      count    |-> Len(InFlight(s)),   count2 |-> Len(InFlight(r.st)),
      cnt_e    |-> Len(Logical(s)),    cnt_p  |-> Len(s.pend),
      ent2     |-> Len(r.st.entry),    clr2   |-> r.st.clr,
      pblk     |-> r.st.pend # <<>>,   cblk   |-> r.st.cwait,
      eo |-> eo, m |-> m, do |-> do, rst |-> rst ]

\* the outputs of an idle cycle of the empty adapter
IdleOut(k, cf) == Outputs(k, cf, St0, FALSE, 0, FALSE, FALSE)

---------------------------------------------------------------------------
\* State machine

Init == /\ kind \in KindSet /\ cfirst \in (IF kind = "fl2rtl" THEN BOOLEAN ELSE {TRUE})
        /\ st = St0 /\ out = IdleOut(kind, cfirst) /\ accepted = <<>> /\ delivered = <<>>

Cycle(eo, m, do, rst) ==
    /\ Legal(st, eo, do)
    /\ LET r == Step(kind, cfirst, st, eo, m, do, rst) IN
       /\ st'  = r.st
       /\ out' = Outputs(kind, cfirst, st, eo, m, do, rst)
       /\ accepted'  = IF r.ex THEN Append(accepted, m) ELSE accepted
       /\ delivered' = IF r.dx THEN Append(delivered, r.dm[1]) ELSE delivered
    /\ UNCHANGED <<kind, cfirst>>

AnyMsg == CHOOSE x \in Msgs : TRUE
Next == \E eo \in BOOLEAN : \E m \in (IF eo THEN Msgs ELSE {AnyMsg}), do \in BOOLEAN, rst \in BOOLEAN :
            Cycle(eo, m, do, rst)

Spec == Init /\ [][Next]_vars

View      == <<kind, cfirst, st, out>>
HistBound == Len(accepted) <= MaxHist

---------------------------------------------------------------------------
\* Properties

Slot == {<<>>} \cup {<<x>> : x \in Msgs}

TypeOK == /\ kind \in Kinds /\ cfirst \in BOOLEAN
          /\ st.entry \in Slot /\ st.pend \in Slot /\ st.clr \in BOOLEAN /\ st.cwait \in BOOLEAN
          /\ out.count2 = Len(InFlight(st))
          /\ st.clr => st.entry # <<>>                  \* only a sent buffer is cleared
          /\ (st.pend # <<>>) => FLProd(kind)
          /\ st.cwait => FLCons(kind)
          /\ (Wire(kind) \/ kind = "fl2cl") => st.entry = <<>>

\* buffer occupancy <= its capacity
Bounded == Len(InFlight(st)) <= CapOf(kind) /\ Len(Logical(st)) <= 1

IsPrefix(a, b) == Len(a) <= Len(b) /\ \A i \in 1 .. Len(a) : a[i] = b[i]

\* nothing lost, duplicated, reordered or invented
DeliveredPrefix == IsPrefix(delivered, accepted)
Conservation    == accepted = delivered \o InFlight(st)

\* a consumer blocks only when there was nothing to take (in pipe order the producer may have
\* refilled the buffer later in the same cycle)
BlockedOK == /\ (st.cwait /\ kind = "rtl2fl") => Logical(st) = <<>>
             /\ out.cblk = st.cwait /\ out.pblk = (st.pend # <<>>)

\* ready / enable / valid outputs as the adapter's kind implies, stated on the outputs of the
\* last cycle and the occupancies before it (independently of the step operators)
OutExact ==
    LET o == out
        qk == QueueKind(kind) IN
    /\ o.deq_xfer => o.do
    /\ (o.enq_xfer /\ ~FLProd(kind)) => (o.eo /\ o.enq_rdy)
    /\ qk = "bypass" => /\ o.enq_rdy  = (o.cnt_e = 0)
                        /\ o.deq_rdy  = (o.cnt_e # 0 \/ o.enq_xfer)
                        /\ o.enq_xfer = (o.eo /\ o.enq_rdy)
                        /\ o.deq_xfer = (o.do /\ o.deq_rdy)
    /\ qk = "pipe"   => /\ o.deq_rdy  = (o.cnt_e # 0)
                        /\ o.enq_rdy  = (o.cnt_e = 0 \/ o.deq_xfer)
                        /\ o.enq_xfer = (o.eo /\ o.enq_rdy)
                        /\ o.deq_xfer = (o.do /\ o.deq_rdy)
    /\ Wire(kind)    => /\ o.enq_rdy  = (o.do /\ ~(kind = "rtl2cl" /\ o.rst))
                        /\ o.enq_xfer = (o.eo /\ o.enq_rdy)
                        /\ o.deq_xfer = o.enq_xfer
    /\ kind = "fl2cl"  => /\ o.deq_xfer = (o.do /\ (o.cnt_p # 0 \/ o.eo))
                          /\ o.ret = o.deq_xfer /\ o.enq_xfer = o.eo
    /\ kind = "fl2rtl" => /\ o.deq_xfer = (o.do /\ o.deq_rdy)
                          /\ o.deq_rdy = (o.cnt_e # 0 \/ o.ret)
                          /\ o.ret => (o.cnt_e = 0 /\ (o.cnt_p # 0 \/ o.eo))
                          /\ cfirst => (o.ret = (o.cnt_e = 0 /\ (o.cnt_p # 0 \/ o.eo)))
                          /\ o.enq_xfer = o.eo
    /\ FLCons(kind)  => o.cblk = (o.do /\ ~o.deq_xfer)
    /\ FLProd(kind)  => o.pblk = ((o.cnt_p # 0 \/ o.eo) /\ ~o.ret)

CountExact ==
    out.count2 = out.count + (IF out.enq_xfer THEN 1 ELSE 0) - (IF out.deq_xfer THEN 1 ELSE 0)

\* per step: the delivered message is the oldest one in flight (or the one passing through); a
\* buffered message is delivered as soon as the consumer offers; nothing moves without a transfer
StepFifo == [][ LET fl == InFlight(st) IN
                /\ (out'.deq_xfer /\ fl # <<>>) => out'.deq_msg = <<Head(fl)>>
                /\ (out'.deq_xfer /\ fl = <<>>) => (out'.enq_xfer /\ out'.deq_msg = <<out'.m>>)
                /\ (Logical(st) # <<>> /\ out'.do) => out'.deq_xfer
                /\ (~out'.deq_xfer /\ ~out'.enq_xfer) => InFlight(st)' = fl
              ]_vars

\* every adapter refines the channel of its capacity, step by step
RefinesChannel == [][ LET o == out' IN
                      /\ Ch!StepOK(CapOf(kind), InFlight(st), o.enq_xfer, o.deq_xfer)
                      /\ InFlight(st)' = Ch!NextQ(InFlight(st), o.enq_xfer, o.m, o.deq_xfer)
                      /\ o.deq_xfer => o.deq_msg = <<Ch!DelMsg(InFlight(st), o.enq_xfer, o.m)>>
                    ]_vars

\* the adapters with a buffer and non-blocking (or consumer-blocking) sides are exactly the
\* one-entry library queue of their kind: same outputs, same next contents as Fifo.tla
RefinesFifo == [][ QueueKind(kind) # "none" =>
                   LET o  == out'
                       qk == QueueKind(kind)
                       fo == F!Outputs(qk, 1, Logical(st), o.eo, o.m, o.do) IN
                   /\ fo.enq_rdy = o.enq_rdy /\ fo.deq_rdy = o.deq_rdy
                   /\ fo.enq_xfer = o.enq_xfer /\ fo.deq_xfer = o.deq_xfer
                   /\ fo.deq_msg = o.deq_msg /\ fo.count = o.count /\ fo.count2 = o.count2
                   /\ Logical(st)' = F!NextQ(qk, 1, Logical(st), o.eo, o.m, o.do)
                 ]_vars
=============================================================================
