SPECIFICATION TSpec
CONSTANTS MaxLen = 0
 Bug = "none"
 HistOnly = FALSE
 Kinds = "both"
CHECK_DEADLOCK FALSE
