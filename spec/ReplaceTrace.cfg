SPECIFICATION TSpec
CONSTANTS Bug = "none"
 HistOnly = FALSE
CHECK_DEADLOCK FALSE
