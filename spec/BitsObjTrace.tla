---------------------------- MODULE BitsObjTrace ----------------------------
(***************************************************************************)
(* Trace validation for C04 / C05 (code -> spec): calls logged from the    *)
(* real pymtl3 Bits class and helpers are checked against BitsObj.tla /    *)
(* BV.tla, over a HEAP of live objects as in BitsHeap.tla.  One TLC run    *)
(* validates a batch of traces; every event action is total (a mismatch    *)
(* sets `err` to the failing clause) and Finish prints one verdict         *)
(* <<"V", tid, err, l>>  per trace.                                        *)
(*                                                                         *)
(* The harness keeps program variables 1, 2, ... each bound to its own     *)
(* real object; variable 1 ("self") exists from the start.  hp[i] is the   *)
(* specification's state of the object of variable i.                      *)
(*                                                                         *)
(* Trace := [w0: width of object 1, built as Bits(w0) = 0, ev: Seq(Event)] *)
(*          or [init: state of object 1, ev] / [init_heap: Seq(state), ev] *)
(*          for the remainder of a trace whose earlier part was already    *)
(*          judged (the harness resumes after a reported violation from    *)
(*          the observed states)                                           *)
(* Event := [op, refl, args, out, post] (+ out2 for "divmod") and, in      *)
(*          traces over several objects, rid / tgt / alias / heap          *)
(*   args   operands ([k: "bits"|"int", neg, w, d] literals; [k: "self"] = *)
(*          object 1, [k: "obj", id] = the object of variable id -- their  *)
(*          values are taken from the SPEC state, never from the log),     *)
(*          indices (<<>> = None, <<i>>), plain ints / bools               *)
(*   out    logged outcome [k: "ok"|"int"|"bool"|"unit"|"err", neg, w, d]  *)
(*   rid    (pure calls returning Bits, and "new") the variable that was   *)
(*          bound to the returned object: 1 .. number of variables + 1;    *)
(*          absent / 0: the result was dropped ("new": variable 1)         *)
(*   alias  0, or the variable whose object IS (Python `is`) the returned  *)
(*          object: a result must be a NEW object (clause                  *)
(*          result-aliases-live-object)                                    *)
(*   tgt    (mutators) the variable whose object is modified; default 1    *)
(*   heap   observed states of the objects of ALL variables after the      *)
(*          call; compared with the specification's heap after EVERY       *)
(*          event: the object named by rid / tgt must hold the specified   *)
(*          state (clause post-state-mismatch) and NO OTHER object may     *)
(*          have changed (clause changed-another-object: pure operators    *)
(*          must not modify their operands, a mutator must not modify any  *)
(*          object but its own, a raising call must change nothing)        *)
(*   post   observed state of object 1 (traces without `heap`: only this   *)
(*          one is compared)                                               *)
(* ops      binary add..ge (args x, y; refl: y op x, y an int; the flag    *)
(*          ip = TRUE says the harness spelled it `x op= y`, which for     *)
(*          Bits is the same pure operator), divmod (x // y and x % y      *)
(*          together), invert int uint pyint index bool nbits clone        *)
(*          deepcopy, hash_eq, getbit (x, i), getslice (x, lo, hi, step),  *)
(*          concat (x1 .. xn), zext sext trunc (x, n), reduce_*, clog2     *)
(*          (N); mutators new (w, v, trunc), assign, nbassign (v), flip,   *)
(*          setbit (i, v), setslice (lo, hi, step, v).                     *)
(* Clauses: unexpected-error, missing-error, wrong-result-type,            *)
(*          wrong-result, result-aliases-live-object, post-state-mismatch, *)
(*          changed-another-object, unknown-event; bad-trace-* = the       *)
(*          harness logged an ill-formed trace (machinery failure).        *)
(***************************************************************************)
EXTENDS Integers, Sequences, FiniteSets, TLC, Json, IOUtils

O == INSTANCE BitsObj WITH Ws <- {1}, VWs <- {1}, IMax <- 0, Acts <- {}, st <- 0, res <- 0
B == INSTANCE BV WITH LB <- 15

Input  == JsonDeserialize(IOEnv.VERIF_INPUT)
Traces == Input.traces

VARIABLES tid, l, err, fin, hp
tvars == <<tid, l, err, fin, hp>>

T  == Traces[tid]
Ev == T.ev[l]

Has(f) == f \in DOMAIN Ev
Tgt    == IF Has("tgt") THEN Ev.tgt ELSE 1
Rid    == IF Has("rid") THEN Ev.rid ELSE 0
Alias  == IF Has("alias") THEN Ev.alias ELSE 0
st     == hp[Tgt]                                   \* the object a mutator acts on

Opnd(i) == LET a == Ev.args[i]
           IN  IF a.k = "self" THEN O!SelfOp(hp[1])
               ELSE IF a.k = "obj" THEN O!SelfOp(hp[a.id])
               ELSE a

SameState(s, p) == /\ s.w = p.w /\ s.d = p.d /\ s.nxt.some = p.nxt.some
                   /\ (s.nxt.some => s.nxt.d = p.nxt.d)

\* verdict of a logged outcome against a set of admitted outcomes
Judge(outs, out) ==
    IF outs.any THEN "ok"
    ELSE IF \E o \in outs.outs : O!SameOut(o, out) THEN "ok"
    ELSE IF out.k = "err" THEN "unexpected-error"
    ELSE IF \A o \in outs.outs : o.k = "err" THEN "missing-error"
    ELSE IF \A o \in outs.outs : o.k # out.k THEN "wrong-result-type"
    ELSE "wrong-result"

\* verdict of a logged mutator outcome; pairs = set of <<outcome, next state>>
JudgeMut(pairs, out) == Judge([any |-> FALSE, outs |-> {p[1] : p \in pairs}], out)
NextOf(pairs, out)   == (CHOOSE p \in pairs : p[1].k = out.k)[2]

Init == /\ tid \in 1..Len(Traces)
        /\ l = 1 /\ err = "ok" /\ fin = FALSE
        /\ hp = IF "init_heap" \in DOMAIN Traces[tid] THEN Traces[tid].init_heap
                ELSE IF "init" \in DOMAIN Traces[tid] THEN <<Traces[tid].init>>
                ELSE <<O!MkState(B!Zero(Traces[tid].w0))>>

Live    == ~fin /\ err = "ok" /\ l <= Len(T.ev)
Fail(c) == err' = c /\ UNCHANGED <<tid, l, fin, hp>>

\* variable r is (re)bound to a new object in state s
Bind(h, r, s) == IF r = Len(h) + 1 THEN Append(h, s) ELSE [h EXCEPT ![r] = s]

\* the observed objects against the specification's heap h2, of which only object ch (0: none) changed
Mismatch(h2, ch) ==
    IF Has("heap")
    THEN IF Len(Ev.heap) # Len(h2) THEN "bad-trace-heap-size"
         ELSE IF \E c \in 1..Len(h2) : c # ch /\ ~SameState(h2[c], Ev.heap[c]) THEN "changed-another-object"
         ELSE IF ch # 0 /\ ~SameState(h2[ch], Ev.heap[ch]) THEN "post-state-mismatch"
         ELSE "ok"
    ELSE IF ~SameState(h2[1], Ev.post) THEN "post-state-mismatch" ELSE "ok"

\* common tail: the verdict v of the call, the specification's next heap h2 (object ch changed)
Conclude(v, h2, ch) ==
    IF v # "ok" THEN Fail(v)
    ELSE IF Alias # 0 THEN Fail("result-aliases-live-object")
    ELSE LET m == Mismatch(h2, ch)
         IN  IF m # "ok" THEN Fail(m)
             ELSE hp' = h2 /\ l' = l + 1 /\ UNCHANGED <<tid, err, fin>>

\* a pure call: nothing changes, except that variable rid is bound to the NEW object holding the result
PureEv(outs) ==
    LET v    == Judge(outs, Ev.out)
        keep == Rid # 0 /\ Ev.out.k = "ok"
    IN  IF Rid # 0 /\ (outs.any \/ Rid > Len(hp) + 1) THEN Fail("bad-trace-rid")
        ELSE Conclude(v, IF v = "ok" /\ keep THEN Bind(hp, Rid, O!MkState(O!BVof(Ev.out))) ELSE hp,
                      IF keep THEN Rid ELSE 0)

BinEv ==
    /\ Live
    /\ Ev.op \in O!BinOps
    /\ PureEv(O!BinOuts(Ev.op, Ev.refl, Opnd(1), Opnd(2)))

DivModEv ==
    /\ Live
    /\ Ev.op = "divmod"
    /\ Conclude(IF O!DivModAdmits(Ev.refl, Opnd(1), Opnd(2), Ev.out, Ev.out2) THEN "ok" ELSE "wrong-result", hp, 0)

UnaryEv ==
    /\ Live
    /\ Ev.op \in O!UnaryOps \cup {"hash_eq"}
    /\ PureEv(IF Ev.op = "hash_eq" THEN O!HashEqOuts(Opnd(1), Opnd(2)) ELSE O!UnOuts(Ev.op, Opnd(1)))

ReadEv ==
    /\ Live
    /\ Ev.op \in {"getbit", "getslice"}
    /\ PureEv(IF Ev.op = "getbit" THEN O!GetBitOuts(Opnd(1), Ev.args[2])
              ELSE O!GetSliceOuts(Opnd(1), Ev.args[2], Ev.args[3], Ev.args[4]))

HelperEv ==
    /\ Live
    /\ Ev.op \in {"concat", "zext", "sext", "trunc", "reduce_and", "reduce_or", "reduce_xor"}
    /\ PureEv(CASE Ev.op = "concat" -> O!ConcatOuts([i \in 1..Len(Ev.args) |-> Opnd(i)])
                [] Ev.op = "zext"   -> O!ZextOuts(Opnd(1), Ev.args[2])
                [] Ev.op = "sext"   -> O!SextOuts(Opnd(1), Ev.args[2])
                [] Ev.op = "trunc"  -> O!TruncOuts(Opnd(1), Ev.args[2])
                [] OTHER            -> O!RedOuts(Ev.op, Opnd(1)))

Clog2Ev ==
    /\ Live
    /\ Ev.op = "clog2"
    /\ PureEv(O!Clog2Outs(Ev.args[1]))

\* the object of variable Tgt changes as the admitted pair with the logged outcome says
MutEv(pairs) ==
    LET v == JudgeMut(pairs, Ev.out)
    IN  IF Tgt > Len(hp) THEN Fail("bad-trace-tgt")
        ELSE Conclude(v, IF v = "ok" THEN [hp EXCEPT ![Tgt] = NextOf(pairs, Ev.out)] ELSE hp, Tgt)

\* Bits(w, v, trunc): variable rid (default 1) is bound to the new object; a failed call binds nothing
NewEv ==
    /\ Live
    /\ Ev.op = "new"
    /\ LET pairs == O!NewOuts(Ev.args[1], Opnd(2), Ev.args[3])
           v     == JudgeMut(pairs, Ev.out)
           r     == IF Rid # 0 THEN Rid ELSE 1
           made  == v = "ok" /\ Ev.out.k # "err"
       IN  IF r > Len(hp) + 1 THEN Fail("bad-trace-rid")
           ELSE Conclude(v, IF made THEN Bind(hp, r, NextOf(pairs, Ev.out)) ELSE hp, IF made THEN r ELSE 0)

AssignEv ==
    /\ Live
    /\ Ev.op \in {"assign", "nbassign", "flip"}
    /\ MutEv(CASE Ev.op = "assign"   -> O!AssignOuts(st, Opnd(1))
               [] Ev.op = "nbassign" -> O!NbAssignOuts(st, Opnd(1))
               [] Ev.op = "flip"     -> O!FlipOuts(st))

SetEv ==
    /\ Live
    /\ Ev.op \in {"setbit", "setslice"}
    /\ MutEv(IF Ev.op = "setbit" THEN O!SetBitOuts(st, Ev.args[1], Opnd(2))
             ELSE O!SetSliceOuts(st, Ev.args[1], Ev.args[2], Ev.args[3], Opnd(4)))

Known == O!BinOps \cup O!UnaryOps \cup
         {"divmod", "hash_eq", "getbit", "getslice", "concat", "zext", "sext", "trunc", "reduce_and", "reduce_or",
          "reduce_xor", "clog2", "new", "assign", "nbassign", "flip", "setbit", "setslice"}
Other == /\ Live /\ Ev.op \notin Known /\ Fail("unknown-event")

Finish == /\ ~fin /\ (err # "ok" \/ l > Len(T.ev))
          /\ PrintT(<<"V", tid, err, l>>)
          /\ fin' = TRUE /\ UNCHANGED <<tid, l, err, hp>>

Next == BinEv \/ DivModEv \/ UnaryEv \/ ReadEv \/ HelperEv \/ Clog2Ev \/ NewEv \/ AssignEv \/ SetEv \/ Other \/ Finish

Spec == Init /\ [][Next]_tvars
=============================================================================
