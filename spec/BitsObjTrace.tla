---------------------------- MODULE BitsObjTrace ----------------------------
(***************************************************************************)
(* Trace validation for C04 / C05 (code -> spec): calls logged from the    *)
(* real pymtl3 Bits class and helpers are checked against BitsObj.tla /    *)
(* BV.tla.  One TLC run validates a batch of traces; every event action is *)
(* total (a mismatch sets `err` to the failing clause) and Finish prints   *)
(* one verdict  <<"V", tid, err, l>>  per trace.                           *)
(*                                                                         *)
(* Trace := [w0: width of the tracked object, built as Bits(w0) = 0,       *)
(*           ev: Seq(Event)]   or   [init: state, ev] for the remainder of *)
(*           a trace whose earlier part was already judged (the harness    *)
(*           resumes after a reported violation from the observed state)   *)
(* Event := [op, refl, args, out, post] (+ out2 for "divmod")              *)
(*   args   operands ([k: "bits"|"int", neg, w, d]; [k: "self"] = the      *)
(*          tracked object, whose value is taken from the SPEC state, not  *)
(*          from the log), indices (<<>> = None, <<i>>), plain ints/bools  *)
(*   out    logged outcome [k: "ok"|"int"|"bool"|"unit"|"err", neg, w, d]  *)
(*   post   observed state of the tracked object after the call            *)
(*          [w, d, nxt: [some, d]]; compared with the spec state after     *)
(*          EVERY event (so pure operators must not modify their operands  *)
(*          and a raising mutator must leave the object unchanged)         *)
(* ops      binary add..ge (args x, y; refl: y op x, y an int), divmod     *)
(*          (x // y and x % y together), invert int uint pyint index bool  *)
(*          nbits clone, hash_eq, getbit (x, i), getslice (x, lo, hi,      *)
(*          step), concat (x1 .. xn), zext sext trunc (x, n), reduce_*,    *)
(*          clog2 (N); mutators new (w, v, trunc), assign, nbassign (v),   *)
(*          flip, setbit (i, v), setslice (lo, hi, step, v).               *)
(* Clauses: unexpected-error, missing-error, wrong-result-type,            *)
(*          wrong-result, post-state-mismatch, unknown-event.              *)
(***************************************************************************)
EXTENDS Integers, Sequences, FiniteSets, TLC, Json, IOUtils

O == INSTANCE BitsObj WITH Ws <- {1}, VWs <- {1}, IMax <- 0, Acts <- {}, st <- 0, res <- 0
B == INSTANCE BV WITH LB <- 15

Input  == JsonDeserialize(IOEnv.VERIF_INPUT)
Traces == Input.traces

VARIABLES tid, l, err, fin, st
tvars == <<tid, l, err, fin, st>>

T  == Traces[tid]
Ev == T.ev[l]

Opnd(i) == IF Ev.args[i].k = "self" THEN O!SelfOp(st) ELSE Ev.args[i]

SameState(s, p) == /\ s.w = p.w /\ s.d = p.d /\ s.nxt.some = p.nxt.some
                   /\ (s.nxt.some => s.nxt.d = p.nxt.d)

\* verdict of a logged outcome against a set of admitted outcomes
Judge(outs, out) ==
    IF outs.any THEN "ok"
    ELSE IF \E o \in outs.outs : O!SameOut(o, out) THEN "ok"
    ELSE IF out.k = "err" THEN "unexpected-error"
    ELSE IF \A o \in outs.outs : o.k = "err" THEN "missing-error"
    ELSE IF \A o \in outs.outs : o.k # out.k THEN "wrong-result-type"
    ELSE "wrong-result"

\* verdict of a logged mutator outcome; pairs = set of <<outcome, next state>>
JudgeMut(pairs, out) == Judge([any |-> FALSE, outs |-> {p[1] : p \in pairs}], out)
NextOf(pairs, out)   == (CHOOSE p \in pairs : p[1].k = out.k)[2]

Init == /\ tid \in 1..Len(Traces)
        /\ l = 1 /\ err = "ok" /\ fin = FALSE
        /\ st = IF "init" \in DOMAIN Traces[tid] THEN Traces[tid].init
                ELSE O!MkState(B!Zero(Traces[tid].w0))

Live    == ~fin /\ err = "ok" /\ l <= Len(T.ev)
Fail(c) == err' = c /\ UNCHANGED <<tid, l, fin, st>>

\* common tail: the verdict v of the call, the spec's next state s2, then the observed post state
Conclude(v, s2) ==
    IF v # "ok" THEN Fail(v)
    ELSE IF ~SameState(s2, Ev.post) THEN Fail("post-state-mismatch")
    ELSE st' = s2 /\ l' = l + 1 /\ UNCHANGED <<tid, err, fin>>

BinEv ==
    /\ Live
    /\ Ev.op \in O!BinOps
    /\ Conclude(Judge(O!BinOuts(Ev.op, Ev.refl, Opnd(1), Opnd(2)), Ev.out), st)

DivModEv ==
    /\ Live
    /\ Ev.op = "divmod"
    /\ Conclude(IF O!DivModAdmits(Ev.refl, Opnd(1), Opnd(2), Ev.out, Ev.out2) THEN "ok" ELSE "wrong-result", st)

UnaryEv ==
    /\ Live
    /\ Ev.op \in O!UnaryOps \cup {"hash_eq"}
    /\ Conclude(Judge(IF Ev.op = "hash_eq" THEN O!HashEqOuts(Opnd(1), Opnd(2)) ELSE O!UnOuts(Ev.op, Opnd(1)),
                      Ev.out), st)

ReadEv ==
    /\ Live
    /\ Ev.op \in {"getbit", "getslice"}
    /\ Conclude(Judge(IF Ev.op = "getbit" THEN O!GetBitOuts(Opnd(1), Ev.args[2])
                      ELSE O!GetSliceOuts(Opnd(1), Ev.args[2], Ev.args[3], Ev.args[4]), Ev.out), st)

HelperEv ==
    /\ Live
    /\ Ev.op \in {"concat", "zext", "sext", "trunc", "reduce_and", "reduce_or", "reduce_xor"}
    /\ Conclude(Judge(CASE Ev.op = "concat" -> O!ConcatOuts([i \in 1..Len(Ev.args) |-> Opnd(i)])
                        [] Ev.op = "zext"   -> O!ZextOuts(Opnd(1), Ev.args[2])
                        [] Ev.op = "sext"   -> O!SextOuts(Opnd(1), Ev.args[2])
                        [] Ev.op = "trunc"  -> O!TruncOuts(Opnd(1), Ev.args[2])
                        [] OTHER            -> O!RedOuts(Ev.op, Opnd(1)), Ev.out), st)

Clog2Ev ==
    /\ Live
    /\ Ev.op = "clog2"
    /\ Conclude(Judge(O!Clog2Outs(Ev.args[1]), Ev.out), st)

MutEv(pairs) ==
    LET v == JudgeMut(pairs, Ev.out)
    IN  Conclude(v, IF v = "ok" THEN NextOf(pairs, Ev.out) ELSE st)

NewEv ==
    /\ Live
    /\ Ev.op = "new"
    /\ LET pairs == O!NewOuts(Ev.args[1], Opnd(2), Ev.args[3])
           v     == JudgeMut(pairs, Ev.out)
       IN  Conclude(v, IF v = "ok" /\ Ev.out.k # "err" THEN NextOf(pairs, Ev.out) ELSE st)

AssignEv ==
    /\ Live
    /\ Ev.op \in {"assign", "nbassign", "flip"}
    /\ MutEv(CASE Ev.op = "assign"   -> O!AssignOuts(st, Opnd(1))
               [] Ev.op = "nbassign" -> O!NbAssignOuts(st, Opnd(1))
               [] Ev.op = "flip"     -> O!FlipOuts(st))

SetEv ==
    /\ Live
    /\ Ev.op \in {"setbit", "setslice"}
    /\ MutEv(IF Ev.op = "setbit" THEN O!SetBitOuts(st, Ev.args[1], Opnd(2))
             ELSE O!SetSliceOuts(st, Ev.args[1], Ev.args[2], Ev.args[3], Opnd(4)))

Known == O!BinOps \cup O!UnaryOps \cup
         {"divmod", "hash_eq", "getbit", "getslice", "concat", "zext", "sext", "trunc", "reduce_and", "reduce_or",
          "reduce_xor", "clog2", "new", "assign", "nbassign", "flip", "setbit", "setslice"}
Other == /\ Live /\ Ev.op \notin Known /\ Fail("unknown-event")

Finish == /\ ~fin /\ (err # "ok" \/ l > Len(T.ev))
          /\ PrintT(<<"V", tid, err, l>>)
          /\ fin' = TRUE /\ UNCHANGED <<tid, l, err, st>>

Next == BinEv \/ DivModEv \/ UnaryEv \/ ReadEv \/ HelperEv \/ Clog2Ev \/ NewEv \/ AssignEv \/ SetEv \/ Other \/ Finish

Spec == Init /\ [][Next]_tvars
=============================================================================
