------------------------------- MODULE Names -------------------------------
(***************************************************************************)
(* Hierarchical naming of pymtl3 objects (property C14).                   *)
(*   pymtl3/dsl/NamedObject.py  __setattr_for_elaborate__                  *)
(*   pymtl3/dsl/Connectable.py  Signal.__getattr__ / __getitem__           *)
(*                                                                         *)
(* Part 1  shapes and their objects.  A shape is                           *)
(*     [decl : Seq(Decl), ment : Seq(Mention)]                             *)
(*   Decl    == [path : Seq(STRING), kind, dims : Seq(Nat), rag, ty]       *)
(*     `path` is the sequence of attribute names from the top component    *)
(*     (<<>>, implicit), `kind` one of comp / ifc / InPort / OutPort /     *)
(*     Wire / CallerPort / CalleePort, `dims` the dimensions of the        *)
(*     regular list the attribute holds (<<>> = no list), `ty` a key of    *)
(*     Types for signals.  `rag` # <<>> (then dims = <<>>) makes the       *)
(*     attribute a ragged / mixed list: a tree whose leaves are objects,   *)
(*     e.g. [ o, [ o, [ o, o ] ], [] ], given as its depth-first           *)
(*     flattening  Seq([ix : index path, leaf : BOOLEAN])  with one entry  *)
(*     per object (leaf) and one per empty sub-list (~leaf, no object).    *)
(*     The object at index path <<1, 1, 0>> of attribute a is a[1][1][0]   *)
(*     (one [i] per list passed, so names in one list differ in length);   *)
(*     its parent is the component / interface holding the attribute.      *)
(*     Every element of a list has the same sub-shape (the declarations    *)
(*     below it).  Every component implicitly declares the in-ports clk    *)
(*     and reset; connect-mention number j declares the sink wire k<j> it  *)
(*     is connected to in its host component.                              *)
(*   Mention == [path, ix, expr, how]: a statement in the class of the     *)
(*     host component of the signal declared at `path` that evaluates      *)
(*     s.<seg>[ix]...<expr>, either read in an update block ("upblk") or   *)
(*     connected to a sink wire ("connect").  Field and slice signals      *)
(*     ("views") exist only once mentioned; a list-typed struct field      *)
(*     materialises all its elements; a slice of a slice is the slice of   *)
(*     the underlying signal with the offsets added (it never nests).      *)
(*   Object  == [p : Seq([n, ix]), v : Seq(Step)]  (instance path + view). *)
(*                                                                         *)
(* Part 2  the name-level rule: a name is "s" followed by tokens           *)
(*   .n[i][j]  or  [lo:hi];  the parent's name is the name without its     *)
(*   last token; host / level / top-level signal follow by recursion over  *)
(*   the parent's row.  GenericErr is used on its own for hierarchies      *)
(*   shipped with the repository.                                          *)
(*                                                                         *)
(* Part 3  the bounded shape family as a state machine (one state = one    *)
(*   shape; declarations are added in breadth-first canonical order, then  *)
(*   mentions) and the invariants TLC checks on every shape.               *)
(***************************************************************************)
EXTENDS Naturals, Integers, Sequences, FiniteSets, TLC, SequencesExt

CONSTANTS MaxDecl,    \* max explicit declarations of a shape
          MaxDeclM,   \* max explicit declarations of a shape that carries mentions
          MaxMent,    \* max mentions
          MaxSl,      \* max nesting of slices in a connect mention (1 = no slice of slice)
          MaxDepth,   \* max length of a declaration path
          MaxFields,  \* max attributes per component / interface
          DimCodes,   \* list dimensions offered: 0 = no list, 2 = [2], 12 = [1][2], 22 = [2][2], ...
          SigTypes,   \* signal types offered (keys of Types)
          SigKindsE,  \* signal classes offered
          MpKindsE,   \* method port classes offered
          ChainOnly,  \* TRUE: every declaration is the child of the previous one
          RagSize,    \* ragged lists: max entries (objects + empty sub-lists) over all ragged lists of a shape
          RagDepth,   \* ragged lists: max nesting of lists (1 = flat); 0 = no ragged lists offered
          RagEmpty    \* ragged lists: max empty sub-lists per list

VARIABLES decl, ment
vars == <<decl, ment>>

---------------------------------------------------------------------------
\* Part 1a: types, steps, index sets

SigKinds == {"InPort", "OutPort", "Wire"}
MpKinds  == {"CallerPort", "CalleePort"}
NoLevel  == -1

CatOf(kind) == CASE kind = "comp"      -> "comp"
                 [] kind = "ifc"       -> "ifc"
                 [] kind \in SigKinds  -> "sig"
                 [] kind \in MpKinds   -> "mp"
                 [] OTHER              -> "other"

FieldT(n, dims, ty) == [n |-> n, dims |-> dims, ty |-> ty]

\* bitstruct I { g: Bits3; h: [Bits2]*2 }
\* bitstruct P { a: Bits2; f: [Bits3]*2; q: I; r: [I]*2; m: [[Bits1]*2]*2 }
Types == [ B1 |-> [w |-> 1, fs |-> <<>>], B2 |-> [w |-> 2, fs |-> <<>>],
           B3 |-> [w |-> 3, fs |-> <<>>], B4 |-> [w |-> 4, fs |-> <<>>],
           I  |-> [w |-> 7,  fs |-> << FieldT("g", <<>>, "B3"), FieldT("h", <<2>>, "B2") >>],
           P  |-> [w |-> 33, fs |-> << FieldT("a", <<>>, "B2"), FieldT("f", <<2>>, "B3"),
                                       FieldT("q", <<>>, "I"),  FieldT("r", <<2>>, "I"),
                                       FieldT("m", <<2, 2>>, "B1") >>] ]
IsBits(ty)   == Types[ty].fs = <<>>
BitsTy(w)    == "B" \o ToString(w)
HasField(ty, n) == \E k \in DOMAIN Types[ty].fs : Types[ty].fs[k].n = n
FieldOf(ty, n)  == LET k == CHOOSE k \in DOMAIN Types[ty].fs : Types[ty].fs[k].n = n IN Types[ty].fs[k]

DimOf(c) == CASE c = 0  -> <<>>     [] c = 1  -> <<1>>    [] c = 2  -> <<2>>    [] c = 3 -> <<3>>
              [] c = 11 -> <<1, 1>> [] c = 12 -> <<1, 2>> [] c = 21 -> <<2, 1>> [] c = 22 -> <<2, 2>>

\* uniform step / token records
FStep(n, ix)  == [t |-> "f", n |-> n,  ix |-> ix,   lo |-> 0,  hi |-> 0]      \* .n[i][j]
SStep(lo, hi) == [t |-> "s", n |-> "", ix |-> <<>>, lo |-> lo, hi |-> hi]     \* [lo:hi]
BStep(i)      == [t |-> "b", n |-> "", ix |-> <<>>, lo |-> i,  hi |-> i + 1]  \* [i] (mention expressions only)
Seg(n, ix)    == [n |-> n, ix |-> ix]
Obj(p, v)     == [p |-> p, v |-> v]
Root          == Obj(<<>>, <<>>)

RECURSIVE Idx(_)
Idx(dims) == IF dims = <<>> THEN {<<>>}
             ELSE {<<i>> \o r : i \in 0 .. dims[1] - 1, r \in Idx(Tail(dims))}

\* ragged / mixed lists
REntry(ix, leaf) == [ix |-> ix, leaf |-> leaf]
RagLeaves(rag)   == SelectSeq(rag, LAMBDA e : e.leaf)
IdxD(d)          == IF d.rag = <<>> THEN Idx(d.dims) ELSE {e.ix : e \in Range(RagLeaves(d.rag))}
                    \* index paths of the objects of a declaration: one [i] per level of list passed

\* the flattening is that of a list tree: index paths non-empty, in depth-first (lexicographic)
\* order, none a prefix of another, and the indices below every list are 0 .. n-1
LexLess(a, b) == \E k \in 1 .. Len(a) : /\ k <= Len(b) /\ a[k] < b[k]
                                        /\ \A j \in 1 .. k - 1 : a[j] = b[j]
RagOK(rag) ==
    /\ \A i \in DOMAIN rag : /\ rag[i].ix # <<>> /\ rag[i].leaf \in BOOLEAN
                             /\ \A k \in DOMAIN rag[i].ix : rag[i].ix[k] \in Nat
    /\ \A i, j \in DOMAIN rag : i < j => LexLess(rag[i].ix, rag[j].ix)
    /\ \A i \in DOMAIN rag : \A k \in DOMAIN rag[i].ix :
          rag[i].ix[k] > 0 => \E j \in DOMAIN rag :
                                 IsPrefix(Append(SubSeq(rag[i].ix, 1, k - 1), rag[i].ix[k] - 1), rag[j].ix)

MaxOf(S) == CHOOSE k \in S : \A j \in S : j <= k

---------------------------------------------------------------------------
\* Part 1b: views a signal type admits, and what a mention expression materialises

WindowSteps(w) == {SStep(x[1], x[2]) : x \in {y \in (0 .. w - 1) \X (1 .. w) : y[1] < y[2]}}

RECURSIVE ViewsOf(_)
ViewsOf(ty) ==
    LET T == Types[ty] IN
    IF T.fs = <<>> THEN {<<>>} \cup {<<st>> : st \in WindowSteps(T.w)}
    ELSE {<<>>} \cup UNION { {<<FStep(T.fs[k].n, i)>> \o v : i \in Idx(T.fs[k].dims), v \in ViewsOf(T.fs[k].ty)}
                             : k \in DOMAIN T.fs }
ViewsTab == [ty \in DOMAIN Types |-> ViewsOf(ty)]      \* constant: evaluated once

\* well-formed expression on a value of type ty (window of width w once inside a slice)
RECURSIVE WFExpr(_, _, _, _)
WFExpr(ty, w, insl, e) ==
    IF e = <<>> THEN TRUE
    ELSE LET st == Head(e) IN
         IF st.t = "f"
         THEN /\ ~insl /\ ~IsBits(ty) /\ HasField(ty, st.n)
              /\ st.ix \in Idx(FieldOf(ty, st.n).dims)
              /\ WFExpr(FieldOf(ty, st.n).ty, Types[FieldOf(ty, st.n).ty].w, FALSE, Tail(e))
         ELSE /\ IsBits(ty) /\ 0 <= st.lo /\ st.lo < st.hi /\ st.hi <= w
              /\ WFExpr(ty, st.hi - st.lo, TRUE, Tail(e))

\* canonical views created while Python evaluates the expression left to right
\* (fv: field view reached so far, off: offset of the current window of its bits)
RECURSIVE Mat(_, _, _, _)
Mat(ty, off, fv, e) ==
    IF e = <<>> THEN {}
    ELSE LET st == Head(e) IN
         IF st.t = "f"
         THEN LET f == FieldOf(ty, st.n) IN
              {Append(fv, FStep(st.n, j)) : j \in Idx(f.dims)}          \* a list field creates all elements
              \cup Mat(f.ty, 0, Append(fv, FStep(st.n, st.ix)), Tail(e))
         ELSE {Append(fv, SStep(off + st.lo, off + st.hi))}             \* flattened onto the sliced signal
              \cup Mat(ty, off + st.lo, fv, Tail(e))

RECURSIVE Resolve(_, _, _, _)
Resolve(ty, off, fv, e) ==      \* the view the whole expression denotes
    IF e = <<>> THEN fv
    ELSE LET st == Head(e) IN
         IF st.t = "f" THEN Resolve(FieldOf(ty, st.n).ty, 0, Append(fv, FStep(st.n, st.ix)), Tail(e))
         ELSE IF Tail(e) = <<>> THEN Append(fv, SStep(off + st.lo, off + st.hi))
         ELSE Resolve(ty, off + st.lo, fv, Tail(e))

RECURSIVE ExprTy(_, _)
ExprTy(ty, e) ==                \* type of the value the expression denotes
    IF e = <<>> THEN ty
    ELSE LET st == Head(e) IN
         IF st.t = "f" THEN ExprTy(FieldOf(ty, st.n).ty, Tail(e))
         ELSE IF Tail(e) = <<>> THEN BitsTy(st.hi - st.lo) ELSE ExprTy(ty, Tail(e))

---------------------------------------------------------------------------
\* Part 1c: declarations and objects of a shape

CompPaths(sh) == {<<>>} \cup {d.path : d \in {e \in Range(sh.decl) : e.kind = "comp"}}

HostPath(sh, path) ==           \* longest proper prefix that is a component
    SubSeq(path, 1, MaxOf({k \in 0 .. Len(path) - 1 : SubSeq(path, 1, k) \in CompPaths(sh)}))

ExplAt(sh, path) == CHOOSE d \in Range(sh.decl) : d.path = path

Implicit(sh) ==
    {[path |-> Append(c, n), kind |-> "InPort", dims |-> <<>>, rag |-> <<>>, ty |-> "B1"]
        : c \in CompPaths(sh), n \in {"clk", "reset"}}
    \cup {[path |-> Append(HostPath(sh, sh.ment[j].path), "k" \o ToString(j)), kind |-> "Wire",
           dims |-> <<>>, rag |-> <<>>, ty |-> ExprTy(ExplAt(sh, sh.ment[j].path).ty, sh.ment[j].expr)]
        : j \in {i \in DOMAIN sh.ment : sh.ment[i].how = "connect"}}

AllDecl(sh) == Range(sh.decl) \cup Implicit(sh)

\* per declaration path: class, index paths of its list, type and the length of the host component's path
Info(sh) ==
    LET AD == AllDecl(sh) IN
    [pth \in {<<>>} \cup {d.path : d \in AD} |->
        IF pth = <<>> THEN [kind |-> "comp", idx |-> {<<>>}, ty |-> "", hl |-> 0]
        ELSE LET d == CHOOSE d \in AD : d.path = pth
             IN  [kind |-> d.kind, idx |-> IdxD(d), ty |-> d.ty, hl |-> Len(HostPath(sh, pth))]]

RECURSIVE InstOf(_, _)
InstOf(inf, path) ==            \* instance paths of a declaration (lists are not objects)
    IF path = <<>> THEN {<<>>}
    ELSE {Append(q, Seg(Last(path), i)) : q \in InstOf(inf, Front(path)), i \in inf[path].idx}

PathOf(o)        == [i \in 1 .. Len(o.p) |-> o.p[i].n]
ViewsAt(inf, pth) == IF inf[pth].kind \in SigKinds THEN ViewsTab[inf[pth].ty] ELSE {<<>>}
DeclObjs(inf)    == UNION {{Obj(q, <<>>) : q \in InstOf(inf, pth)} : pth \in DOMAIN inf}
Allowed(inf)     == UNION {{Obj(q, v) : q \in InstOf(inf, pth), v \in ViewsAt(inf, pth)} : pth \in DOMAIN inf}
ForAllowed(inf, P(_)) ==        \* quantifies over Allowed(inf) without building it
    \A pth \in DOMAIN inf : \A q \in InstOf(inf, pth) : \A v \in ViewsAt(inf, pth) : P(Obj(q, v))

IsAllowed(inf, o) ==
    /\ PathOf(o) \in DOMAIN inf
    /\ \A i \in DOMAIN o.p : o.p[i].ix \in inf[SubSeq(PathOf(o), 1, i)].idx
    /\ o.v \in ViewsAt(inf, PathOf(o))

Materialised(sh, inf, m) ==
    LET hp  == HostPath(sh, m.path)
        rel == [k \in 1 .. Len(m.path) - Len(hp) |-> Seg(m.path[Len(hp) + k], m.ix[k])]
    IN  {Obj(q \o rel, v) : q \in InstOf(inf, hp), v \in Mat(inf[m.path].ty, 0, <<>>, m.expr)}

Required(sh, inf) == DeclObjs(inf) \cup UNION {Materialised(sh, inf, sh.ment[j]) : j \in DOMAIN sh.ment}

WFMention(sh, inf, m) ==
    /\ \E d \in Range(sh.decl) : d.path = m.path /\ d.kind \in SigKinds
    /\ LET hp == HostPath(sh, m.path) IN
       /\ Len(m.ix) = Len(m.path) - Len(hp)
       /\ \A k \in DOMAIN m.ix : m.ix[k] \in inf[SubSeq(m.path, 1, Len(hp) + k)].idx
    /\ m.expr # <<>>
    /\ WFExpr(inf[m.path].ty, Types[inf[m.path].ty].w, FALSE, m.expr)
    /\ m.how \in {"upblk", "connect"}

\* metadata of an object
Parent(o)      == IF o.v # <<>> THEN Obj(o.p, Front(o.v)) ELSE Obj(Front(o.p), <<>>)
Kind(inf, o)   == inf[PathOf(o)].kind                        \* a view has the class of its signal
Host(inf, o)   == Obj(SubSeq(o.p, 1, inf[PathOf(o)].hl), <<>>)
Level(o)       == IF o.v = <<>> THEN Len(o.p) ELSE NoLevel    \* views carry no level attribute
TopSig(o)      == Obj(o.p, <<>>)

---------------------------------------------------------------------------
\* Part 2: names

RECURSIVE IxStr(_)
IxStr(ix)   == IF ix = <<>> THEN "" ELSE "[" \o ToString(ix[1]) \o "]" \o IxStr(Tail(ix))
TokStr(st)  == IF st.t = "f" THEN "." \o st.n \o IxStr(st.ix)
               ELSE "[" \o ToString(st.lo) \o ":" \o ToString(st.hi) \o "]"
RECURSIVE Render(_)
Render(tk)  == IF tk = <<>> THEN "s" ELSE Render(Front(tk)) \o TokStr(Last(tk))

Toks(o)     == [i \in 1 .. Len(o.p) |-> FStep(o.p[i].n, o.p[i].ix)] \o o.v
Name(o)     == Render(Toks(o))

\* inverse of Toks on a shape: the longest declared prefix is the instance path, the rest the view
ObjOfToks(inf, tk) ==
    LET ks == {k \in 0 .. Len(tk) : /\ \A i \in 1 .. k : tk[i].t = "f"
                                    /\ [i \in 1 .. k |-> tk[i].n] \in DOMAIN inf}
        k  == MaxOf(ks)
    IN  Obj([i \in 1 .. k |-> Seg(tk[i].n, tk[i].ix)], SubSeq(tk, k + 1, Len(tk)))

\* the row the harness logs for an object ("" = None / not applicable)
PredRow(inf, o) ==
    LET k == Kind(inf, o) IN
    [name   |-> Name(o), kind |-> k, toks |-> Toks(o),
     parent |-> IF o = Root THEN "" ELSE Name(Parent(o)),
     host   |-> IF k = "comp" THEN "" ELSE Name(Host(inf, o)),
     level  |-> Level(o),
     tls    |-> IF k \in SigKinds THEN Name(TopSig(o)) ELSE ""]

ParentCatOK(c, pc) == CASE c = "comp" -> pc = "comp"
                        [] c = "ifc"  -> pc \in {"comp", "ifc"}
                        [] c = "sig"  -> pc \in {"comp", "ifc", "sig"}
                        [] c = "mp"   -> pc \in {"comp", "ifc"}
                        [] OTHER      -> FALSE

\* name-level rule: tab maps (at least the parent's) name to its row, r is one row with tokens
GenericErr(tab, r) ==
    LET tk == r.toks
        c  == CatOf(r.kind)
    IN
    IF Render(tk) # r.name THEN "name-not-parseable"
    ELSE IF c = "other" THEN "unknown-kind"
    ELSE IF tk = <<>> THEN
        (IF c # "comp" THEN "root-not-a-component"
         ELSE IF r.parent # "" THEN "wrong-parent"
         ELSE IF r.level # 0 THEN "wrong-level"
         ELSE IF r.host # "" THEN "wrong-host"
         ELSE IF r.tls # "" THEN "wrong-top-level-signal"
         ELSE "ok")
    ELSE
        LET pn == Render(Front(tk)) IN
        IF r.parent # pn THEN "wrong-parent"
        ELSE IF pn \notin DOMAIN tab THEN "parent-not-an-object"
        ELSE
            LET pr == tab[pn]
                pc == CatOf(pr.kind)
            IN
            IF Last(tk).t = "s" /\ (c # "sig" \/ pc # "sig" \/ (pr.toks # <<>> /\ Last(pr.toks).t = "s"))
                THEN "slice-parent-not-a-plain-signal"
            ELSE IF ~ParentCatOK(c, pc) THEN "bad-parent-kind"
            ELSE IF pc = "sig" /\ r.kind # pr.kind THEN "view-kind-differs"
            ELSE IF c # "comp" /\ r.host # (IF pc = "comp" THEN pn ELSE pr.host) THEN "wrong-host"
            ELSE IF c = "comp" /\ r.host # "" THEN "wrong-host"
            ELSE IF pc # "sig" /\ (r.level # pr.level + 1 \/ r.level # Len(tk)) THEN "wrong-level"
            ELSE IF pc = "sig" /\ r.level \notin {NoLevel, Len(tk)} THEN "wrong-level"
            ELSE IF c = "sig" /\ r.tls # (IF pc = "sig" THEN pr.tls ELSE r.name) THEN "wrong-top-level-signal"
            ELSE IF c # "sig" /\ r.tls # "" THEN "wrong-top-level-signal"
            ELSE "ok"

---------------------------------------------------------------------------
\* Part 3: the bounded shape family

Letters    == <<"a", "b", "c", "d">>

Sh         == [decl |-> decl, ment |-> SetToSeq(ment)]
Children(par) == {d \in Range(decl) : Front(d.path) = par}
OrdOf(path)   == IF path = <<>> THEN 0 ELSE CHOOSE i \in DOMAIN decl : decl[i].path = path
Containers    == {<<>>} \cup {d.path : d \in {e \in Range(decl) : e.kind \in {"comp", "ifc"}}}
KindOfPath(path) == IF path = <<>> THEN "comp" ELSE (CHOOSE d \in Range(decl) : d.path = path).kind

Init == decl = <<>> /\ ment = {}

\* the list trees offered: RagItems(n, d) one element of a list (an object, an empty list or a
\* non-empty list nested at most d deep) with at most n entries, flattened; RagSeqs(n, d, k) the
\* element sequences k, k+1, ... of a list with at most n entries in total
RECURSIVE RagItems(_, _), RagSeqs(_, _, _)
RagItems(n, d) == {<<REntry(<<>>, TRUE)>>} \cup
                  (IF d > 0 THEN {<<REntry(<<>>, FALSE)>>} \cup (RagSeqs(n, d, 0) \ {<<>>}) ELSE {})
RagSeqs(n, d, k) == {<<>>} \cup
    (IF n = 0 THEN {}
     ELSE UNION {{[j \in DOMAIN it |-> REntry(<<k>> \o it[j].ix, it[j].leaf)] \o r
                    : r \in RagSeqs(n - Len(it), d, k + 1)} : it \in RagItems(n, d - 1)})
RagTab == [n \in 0 .. RagSize |->                                            \* constant
             IF n = 0 \/ RagDepth = 0 THEN {}
             ELSE {t \in RagSeqs(n, RagDepth, 0) \ {<<>>}
                     : Cardinality({i \in DOMAIN t : ~t[i].leaf}) <= RagEmpty}]
RagUsed == FoldLeft(LAMBDA acc, d : acc + Len(d.rag), 0, decl)
ListChoices == {[dims |-> DimOf(c), rag |-> <<>>] : c \in DimCodes}
               \cup {[dims |-> <<>>, rag |-> t] : t \in RagTab[RagSize - RagUsed]}

AddDecl(par, kind, ls, ty) ==
    /\ ment = {}
    /\ Len(decl) < MaxDecl
    /\ Len(par) < MaxDepth
    /\ Cardinality(Children(par)) < MaxFields
    /\ decl # <<>> => OrdOf(par) >= OrdOf(Front(Last(decl).path))      \* breadth-first canonical order
    /\ (ChainOnly /\ decl # <<>>) => par = Last(decl).path
    /\ decl' = Append(decl, [path |-> Append(par, Letters[Cardinality(Children(par)) + 1]),
                             kind |-> kind, dims |-> ls.dims, rag |-> ls.rag, ty |-> ty])
    /\ UNCHANGED ment

AddComp(par, ls)        == KindOfPath(par) = "comp" /\ AddDecl(par, "comp", ls, "")
AddIfc(par, ls)         == AddDecl(par, "ifc", ls, "")
AddSig(par, k, ls, ty)  == AddDecl(par, k, ls, ty)
AddMp(par, k, ls)       == AddDecl(par, k, ls, "")

\* mention expressions: field steps down to a leaf or a struct view, then up to n slices / bit indices
RECURSIVE SlExprs(_, _)
SlExprs(w, n) == {<<>>} \cup
    (IF n = 0 THEN {}
     ELSE UNION {{<<st>> \o r : r \in SlExprs(st.hi - st.lo, n - 1)}
                   : st \in WindowSteps(w) \cup {BStep(i) : i \in 0 .. w - 1}})
RECURSIVE Exprs(_, _)
Exprs(ty, n) ==
    IF IsBits(ty) THEN SlExprs(Types[ty].w, n)
    ELSE {<<>>} \cup UNION {{<<FStep(Types[ty].fs[k].n, i)>> \o r
                               : i \in Idx(Types[ty].fs[k].dims), r \in Exprs(Types[ty].fs[k].ty, n)}
                             : k \in DOMAIN Types[ty].fs}
ExprTab == [ty \in SigTypes |-> [n \in 1 .. MaxSl |-> Exprs(ty, n) \ {<<>>}]]   \* constant

SegDecl(d, hp, k) == CHOOSE e \in Range(decl) : e.path = SubSeq(d.path, 1, Len(hp) + k)

CornerIx(d, hp, z) ==           \* indices of the segments below the host: all first or all last
    [k \in 1 .. Len(d.path) - Len(hp) |->
        LET e == SegDecl(d, hp, k) IN
        IF e.rag = <<>> THEN [j \in DOMAIN e.dims |-> IF z THEN 0 ELSE e.dims[j] - 1]
        ELSE LET lv == RagLeaves(e.rag) IN (IF z THEN lv[1] ELSE lv[Len(lv)]).ix]

Reachable(d, hp) ==             \* the host's class can name an instance (no list on the way is without objects)
    \A k \in 1 .. Len(d.path) - Len(hp) : IdxD(SegDecl(d, hp, k)) # {}

\* a view can be connected to a sink wire when its signal is written by the host's own update
\* block (Wire, OutPort) or is an in-port hosted by the top component
Hows(d, hp) == {"upblk"} \cup
    (IF d.kind \in {"Wire", "OutPort"} \/ hp = <<>> THEN {"connect"} ELSE {})

MentionChoices ==
    UNION {
      LET hp == HostPath([decl |-> decl, ment |-> <<>>], d.path) IN
      UNION {{[path |-> d.path, ix |-> CornerIx(d, hp, z), expr |-> e, how |-> h]
                : z \in BOOLEAN, e \in ExprTab[d.ty][IF h = "upblk" THEN 1 ELSE MaxSl]}
             : h \in Hows(d, hp)}
      : d \in {e \in Range(decl) : /\ e.kind \in SigKinds
                                    /\ Reachable(e, HostPath([decl |-> decl, ment |-> <<>>], e.path))}}

AddMention(m) ==
    /\ m \notin ment
    /\ ment' = ment \cup {m}
    /\ UNCHANGED decl

MentionPhase == Len(decl) <= MaxDeclM /\ Cardinality(ment) < MaxMent

DoAddComp    == \E par \in Containers, ls \in ListChoices : AddComp(par, ls)
DoAddIfc     == \E par \in Containers, ls \in ListChoices : AddIfc(par, ls)
DoAddSig     == \E par \in Containers, ls \in ListChoices, k \in SigKindsE, ty \in SigTypes : AddSig(par, k, ls, ty)
DoAddMp      == \E par \in Containers, ls \in ListChoices, k \in MpKindsE : AddMp(par, k, ls)
DoAddMention == MentionPhase /\ \E m \in MentionChoices : AddMention(m)

Next == DoAddComp \/ DoAddIfc \/ DoAddSig \/ DoAddMp \/ DoAddMention

Spec == Init /\ [][Next]_vars

---------------------------------------------------------------------------
\* Invariants (C14 on the specification side), checked on every shape.
\* Clauses over all views the types admit are evaluated on shapes without mentions (a sink
\* wire is just one more declared wire); shapes with mentions are checked on Required.

ShapeOKOn(sh, inf) ==
    /\ \A i \in DOMAIN sh.decl :
          LET d == sh.decl[i] IN
          /\ d.path # <<>> /\ Len(d.path) <= MaxDepth
          /\ Front(d.path) = <<>> \/ \E e \in Range(sh.decl) : e.path = Front(d.path) /\ e.kind \in {"comp", "ifc"}
          /\ d.kind = "comp" => Front(d.path) \in CompPaths(sh)
          /\ \A j \in DOMAIN sh.decl : sh.decl[j].path = d.path => j = i
          /\ (d.kind \in SigKinds) = (d.ty # "")
          /\ d.kind \in SigKinds => d.ty \in DOMAIN Types
          /\ CatOf(d.kind) # "other"
          /\ Last(d.path) \in Range(Letters)       \* (clk, reset and the sinks k<j> are implicit)
          /\ d.rag # <<>> => d.dims = <<>> /\ RagOK(d.rag)
    /\ \A j \in DOMAIN sh.ment : WFMention(sh, inf, sh.ment[j])

AllowedCount(inf) ==
    FoldLeft(LAMBDA acc, pth : acc + Cardinality(InstOf(inf, pth)) * Cardinality(ViewsAt(inf, pth)),
             0, SetToSeq(DOMAIN inf))

NameInjectiveOn(inf) ==
    Cardinality(UNION {{Name(Obj(q, v)) : q \in InstOf(inf, pth), v \in ViewsAt(inf, pth)} : pth \in DOMAIN inf})
        = AllowedCount(inf)

ParentOK(inf, o) ==     \* the parent is an object and its name is the name without the last token
    o # Root => /\ IsAllowed(inf, Parent(o))
                /\ Name(Parent(o)) = Render(Front(Toks(o)))
                /\ o.v = <<>> => Level(o) = Level(Parent(o)) + 1

HostOK(inf, o) ==       \* the host is the nearest enclosing component
    o # Root =>
        LET h == Host(inf, o) IN
        /\ Kind(inf, h) = "comp" /\ h.v = <<>>
        /\ Len(h.p) < Len(o.p) /\ SubSeq(o.p, 1, Len(h.p)) = h.p
        /\ \A k \in Len(h.p) + 1 .. Len(o.p) - 1 : inf[SubSeq(PathOf(o), 1, k)].kind # "comp"

TopSigOK(inf, o) ==     \* the top-level signal of a view is the declared signal it belongs to
    o.v # <<>> => /\ IsAllowed(inf, TopSig(o)) /\ Kind(inf, TopSig(o)) \in SigKinds
                  /\ Kind(inf, o) = Kind(inf, TopSig(o))

SliceOK(o) ==           \* at most one slice step, the last one
    \A i \in DOMAIN o.v : o.v[i].t = "s" => i = Len(o.v)

GenericOK(inf, o) ==    \* the name-level rule accepts exactly what Part 1 predicts
    LET tab == IF o = Root THEN <<>> ELSE (Name(Parent(o)) :> PredRow(inf, Parent(o)))
    IN  /\ GenericErr(tab, PredRow(inf, o)) = "ok"
        /\ ObjOfToks(inf, Toks(o)) = o

ObjOK(inf, o) == ParentOK(inf, o) /\ HostOK(inf, o) /\ TopSigOK(inf, o) /\ SliceOK(o) /\ GenericOK(inf, o)

MentionsOK(sh, inf) ==
    LET R == Required(sh, inf) IN
    /\ \A o \in R : IsAllowed(inf, o) /\ (o # Root => Parent(o) \in R)   \* nothing exists without its parent
    /\ Cardinality({Name(o) : o \in R}) = Cardinality(R)
    /\ \A o \in R : ObjOK(inf, o)
    /\ \A j \in DOMAIN sh.ment :
          LET m == sh.ment[j]
              v == Resolve(inf[m.path].ty, 0, <<>>, m.expr)
          IN  /\ v \in Mat(inf[m.path].ty, 0, <<>>, m.expr)      \* the denoted view is materialised,
              /\ v \in ViewsTab[inf[m.path].ty]                  \* carries flattened bounds inside the leaf
              /\ ExprTy(inf[m.path].ty, m.expr) \in DOMAIN Types

ShapeInv(sh) ==
    LET inf == Info(sh) IN
    /\ ShapeOKOn(sh, inf)
    /\ IF sh.ment = <<>> THEN NameInjectiveOn(inf) /\ ForAllowed(inf, LAMBDA o : ObjOK(inf, o))
       ELSE MentionsOK(sh, inf)

\* the same clauses one by one (used to name the failing clause after AllInv fails)
ShapeOK        == ShapeOKOn(Sh, Info(Sh))
NameInjective  == NameInjectiveOn(Info(Sh))
ParentByName   == LET inf == Info(Sh) IN ForAllowed(inf, LAMBDA o : ParentOK(inf, o))
HostIsNearestComponent == LET inf == Info(Sh) IN ForAllowed(inf, LAMBDA o : HostOK(inf, o))
TopLevelSignalDeclared == LET inf == Info(Sh) IN ForAllowed(inf, LAMBDA o : TopSigOK(inf, o))
GenericAgrees  == LET inf == Info(Sh) IN ForAllowed(inf, LAMBDA o : GenericOK(inf, o))
MentionsResolve == MentionsOK(Sh, Info(Sh))

AllInv == ShapeInv(Sh)
=============================================================================
