--------------------------- MODULE MagicMemTrace ---------------------------
(***************************************************************************)
(* Trace validation for C18: histories recorded from the real              *)
(* MagicMemoryCL / stream.MagicMemoryRTL (harness/c18_drv.py) are checked  *)
(* to be behaviours of MagicMem.tla.  One TLC run validates a batch        *)
(* (`tid` picks the trace, `l` is the position in it).  Event actions are  *)
(* total: a mismatch sets `err` to the name of the failing clause.         *)
(*                                                                         *)
(* Trace := [np, W, init: Seq(byte), ev: Seq(Event), final: Seq(byte),     *)
(*           mode: "lin" | "inf", tol: "none" | "wr" | "all"]              *)
(* Event := [k |-> "send", p, t, o, a, n, d]      request accepted         *)
(*        | [k |-> "proc", op: "rd"|"wr"|"amo", t, a, nb, d, r, w]         *)
(*                 one outermost call of the MagicMemoryFL instance        *)
(*                 (address, byte count, data bytes, returned bytes, the   *)
(*                 addressed bytes right after the call)                   *)
(*        | [k |-> "dlv",  p, t, o, n, d]         response handed over     *)
(*                                                                         *)
(* mode "lin": every memory call is logged, so the processing order is     *)
(*   known and validation is linear.  A call is matched with the head of   *)
(*   inflight[p] of a port whose request it serves (Process(p)).  A call   *)
(*   that serves no accepted, unprocessed request (`phantom`: e.g. a       *)
(*   request that is offered but not yet accepted, or one applied again)   *)
(*   is admitted iff it leaves the image unchanged; otherwise the clause   *)
(*   applied-without-accepted-request fires (the harness then asks mode    *)
(*   "inf" whether the run is observably sequential).  With tol = "all"    *)
(*   (tol = "wr": writes only) such a call is applied to the image and     *)
(*   validation goes on, to look for independent failures behind it (to    *)
(*   tell a re-applied AMO from a re-applied write).  When a call matches  *)
(*   several                                                               *)
(*   ports (or could also be a phantom) all choices are explored; `ph`     *)
(*   counts phantom choices taken although a port matched.  A trace is     *)
(*   accepted iff SOME branch prints "ok".                                 *)
(* mode "inf": the proc events are dropped and Process steps are silent    *)
(*   (any port with an unprocessed request, any time): TLC infers a        *)
(*   processing order explaining responses and final image, if one exists. *)
(*   Only accepting branches print a verdict.                              *)
(*                                                                         *)
(* INV / FLUSH requests make no memory call and have no effect; they are   *)
(* processed as soon as they reach the head of inflight[p] (they commute   *)
(* with everything on other ports, so this loses no behaviour).            *)
(***************************************************************************)
EXTENDS Naturals, Integers, Sequences, FiniteSets, TLC, Json, IOUtils

M == INSTANCE MagicMem WITH NPorts <- 1, W <- 1, InitMem <- <<>>, MaxReq <- 0,
                            Menu <- LAMBDA p : {},
                            mem <- <<>>, inflight <- <<>>, resp <- <<>>,
                            sent <- <<>>, dlv <- <<>>, hist <- <<>>
   \* only the pure operators of MagicMem are used here

Input  == JsonDeserialize(IOEnv.VERIF_INPUT)
Traces == Input.traces

VARIABLES tid, l, err, fin, ph, mem, inflight, resp
tvars == <<tid, l, err, fin, ph, mem, inflight, resp>>

T     == Traces[tid]
Ev    == T.ev[l]
Ports == 0 .. T.np - 1
NEv   == Len(T.ev)

Init == /\ tid \in 1 .. Len(Traces)
        /\ l = 1 /\ err = "ok" /\ fin = FALSE /\ ph = 0
        /\ mem = [x \in 0 .. Traces[tid].W - 1 |-> Traces[tid].init[x + 1]]
        /\ inflight = [p \in 0 .. Traces[tid].np - 1 |-> <<>>]
        /\ resp = [p \in 0 .. Traces[tid].np - 1 |-> <<>>]

Fail(c) == err' = c /\ UNCHANGED <<tid, l, fin, ph, mem, inflight, resp>>

\* move the leading no-effect (INV / FLUSH) requests of q to the response queue rs
Flush(q, rs) ==
    LET k == CHOOSE k \in 0 .. Len(q) :
                 /\ \A i \in 1 .. k : M!NoEff(q[i].t)
                 /\ k = Len(q) \/ ~M!NoEff(q[k + 1].t)
    IN  [q  |-> SubSeq(q, k + 1, Len(q)),
         rs |-> rs \o [i \in 1 .. k |-> M!RespOf(q[i], <<>>)]]

---------------------------------------------------------------------------
SendEv ==
    /\ Ev.k = "send"
    /\ LET p == Ev.p
           r == [t |-> Ev.t, o |-> Ev.o, a |-> Ev.a, n |-> Ev.n, d |-> Ev.d]
       IN  IF p \notin Ports \/ Ev.a < 0 \/ ~M!ReqOK(T.W, r) THEN Fail("bad-trace-send")
           ELSE LET f == Flush(Append(inflight[p], r), resp[p])
                IN  /\ inflight' = [inflight EXCEPT ![p] = f.q]
                    /\ resp' = [resp EXCEPT ![p] = f.rs]
                    /\ l' = l + 1 /\ UNCHANGED <<tid, err, fin, ph, mem>>

\* Process(p): apply the head of inflight[p], queue its response
DoProcess(p) ==
    LET r == Head(inflight[p])
        x == M!Apply(mem, r)
        f == Flush(Tail(inflight[p]), Append(resp[p], M!RespOf(r, x.data)))
    IN  /\ mem' = x.mem
        /\ inflight' = [inflight EXCEPT ![p] = f.q]
        /\ resp' = [resp EXCEPT ![p] = f.rs]

\* does the logged memory call serve request r ?
MatchProc(r, e) ==
    LET n == M!NBytes(r.n) IN
    CASE r.t = M!READ  -> e.op = "rd" /\ e.a = r.a /\ e.nb = n
      [] r.t = M!WRITE -> e.op = "wr" /\ e.a = r.a /\ e.nb = n /\ e.d = SubSeq(r.d, 1, n)
      [] M!IsAmo(r.t)  -> e.op = "amo" /\ e.t = r.t /\ e.a = r.a /\ e.nb = M!WordBytes /\ e.d = r.d
      [] OTHER         -> FALSE

MatchPorts == {p \in Ports : inflight[p] # <<>> /\ MatchProc(Head(inflight[p]), Ev)}

ProcMatch(p) ==
    LET x == M!Apply(mem, Head(inflight[p])) IN
    IF Ev.r # x.data
    THEN Fail("memory-call-returned-data-differs-from-latest-stores")
    ELSE IF Ev.w # M!ReadBytes(x.mem, Ev.a, Ev.nb)
    THEN Fail("memory-call-left-bytes-other-than-sequential-application")
    ELSE /\ DoProcess(p)
         /\ l' = l + 1 /\ UNCHANGED <<tid, err, fin, ph>>

\* the logged call seen as a request of its own
CallOK == /\ Ev.op \in {"rd", "wr", "amo"}
          /\ Ev.nb \in 1 .. M!WordBytes /\ Ev.a >= 0 /\ Ev.a + Ev.nb <= T.W
          /\ Ev.op = "amo" => (Ev.nb = M!WordBytes /\ M!IsAmo(Ev.t) /\ Len(Ev.d) = M!WordBytes)
          /\ Ev.op = "wr" => Len(Ev.d) = Ev.nb
CallReq == [t |-> IF Ev.op = "rd" THEN M!READ ELSE IF Ev.op = "wr" THEN M!WRITE ELSE Ev.t,
            o |-> 0, a |-> Ev.a, n |-> Ev.nb % M!WordBytes,
            d |-> [i \in 1 .. M!WordBytes |-> IF i <= Len(Ev.d) THEN Ev.d[i] ELSE 0]]

Phantom ==
    IF ~CallOK THEN Fail("memory-call-outside-window-or-malformed")
    ELSE LET x == M!Apply(mem, CallReq) IN
         IF Ev.r # x.data THEN Fail("memory-call-returned-data-differs-from-latest-stores")
         ELSE IF Ev.w # M!ReadBytes(x.mem, Ev.a, Ev.nb)
              THEN Fail("memory-call-left-bytes-other-than-sequential-application")
         ELSE IF x.mem # mem /\ ~(T.tol = "all" \/ (T.tol = "wr" /\ Ev.op = "wr"))
              THEN Fail("applied-without-accepted-request")
         ELSE /\ mem' = x.mem
              /\ ph' = ph + (IF MatchPorts = {} THEN 0 ELSE 1)
              /\ l' = l + 1 /\ UNCHANGED <<tid, err, fin, inflight, resp>>

ProcEv == /\ Ev.k = "proc"
          /\ \/ \E p \in MatchPorts : ProcMatch(p)
             \/ Phantom

DlvEv ==
    /\ Ev.k = "dlv"
    /\ LET p == Ev.p IN
       IF p \notin Ports THEN Fail("bad-trace-deliver")
       ELSE IF resp[p] = <<>> THEN Fail("response-without-processed-request")
       ELSE LET r == Head(resp[p]) IN
            IF Ev.t # r.t THEN Fail("response-type-not-in-request-order")
            ELSE IF Ev.o # r.o THEN Fail("response-opaque-not-in-request-order")
            ELSE IF r.t = M!READ /\ SubSeq(Ev.d, 1, Len(r.data)) # r.data
                 THEN Fail("read-data-not-latest-processed-stores")
            ELSE IF M!IsAmo(r.t) /\ Ev.d # r.data THEN Fail("amo-response-not-old-value")
            ELSE /\ resp' = [resp EXCEPT ![p] = Tail(@)]
                 /\ l' = l + 1 /\ UNCHANGED <<tid, err, fin, ph, mem, inflight>>

Other == /\ Ev.k \notin {"send", "proc", "dlv"} /\ Fail("unknown-event")

\* mode "inf": a Process step that is not in the log
Silent == /\ T.mode = "inf"
          /\ \E p \in Ports : /\ inflight[p] # <<>>
                              /\ DoProcess(p)
          /\ UNCHANGED <<tid, l, err, fin, ph>>

\* after the last event: everything answered, image = sequential application
EndEv ==
    IF \E p \in Ports : inflight[p] # <<>> \/ resp[p] # <<>> THEN Fail("requests-left-unanswered")
    ELSE IF [x \in 1 .. T.W |-> mem[x - 1]] # T.final
         THEN Fail("final-image-differs-from-sequential-application")
    ELSE l' = l + 1 /\ UNCHANGED <<tid, err, fin, ph, mem, inflight, resp>>

Finish == /\ ~fin /\ (err # "ok" \/ l = NEv + 2)
          /\ IF T.mode = "lin" \/ err = "ok" THEN PrintT(<<"V", tid, err, l, ph>>) ELSE TRUE
          /\ fin' = TRUE /\ UNCHANGED <<tid, l, err, ph, mem, inflight, resp>>

Next == \/ /\ ~fin /\ err = "ok" /\ l <= NEv
           /\ (SendEv \/ ProcEv \/ DlvEv \/ Other)
        \/ /\ ~fin /\ err = "ok" /\ l <= NEv + 1 /\ Silent
        \/ /\ ~fin /\ err = "ok" /\ l = NEv + 1 /\ EndEv
        \/ Finish

Spec == Init /\ [][Next]_tvars
=============================================================================
