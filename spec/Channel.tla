------------------------------ MODULE Channel ------------------------------
(***************************************************************************)
(* The channel property of C17 on its own: the most permissive lossless    *)
(* FIFO channel of capacity cap.  It says nothing about WHEN the two ends  *)
(* are ready -- only what "messages delivered are exactly the messages     *)
(* accepted, in order, none lost, duplicated or invented, occupancy never  *)
(* above the capacity" means for one clock cycle:                          *)
(*                                                                         *)
(*   Cycle(acc, m, del): the channel accepts message m iff acc and         *)
(*   delivers a message iff del, in the same cycle.                        *)
(*     - a delivery needs a message: one in flight, or the one accepted in *)
(*       this very cycle (it passes straight through an empty channel);    *)
(*     - an acceptance needs room: fewer than cap in flight, or a delivery *)
(*       in this very cycle frees the slot;                                *)
(*     - the delivered message is the oldest one in flight.                *)
(*                                                                         *)
(* cap = 0 is a wire (accept and deliver only together).  Every adapter of *)
(* Adapter.tla refines Channel(CapOf(kind)) (checked there, step by step); *)
(* end-to-end histories of compositions adapter + library queue + adapter  *)
(* are validated against Channel(sum of the capacities) by AdapterTrace.   *)
(***************************************************************************)
EXTENDS Integers, Sequences

CONSTANTS Caps,     \* the capacities explored by one TLC run
          Msgs, MaxHist

\* cap never changes: it is chosen in the initial state
VARIABLES cap, q, accepted, delivered
vars == <<cap, q, accepted, delivered>>

---------------------------------------------------------------------------
\* pure operators (parameterised by the capacity c and the messages in flight s)

StepOK(c, s, acc, del) ==
    /\ del => (s # <<>> \/ acc)
    /\ acc => (Len(s) < c \/ (del /\ Len(s) <= c))

AfterAcc(s, acc, m)    == IF acc THEN Append(s, m) ELSE s
DelMsg(s, acc, m)      == Head(AfterAcc(s, acc, m))            \* only meaningful when del
NextQ(s, acc, m, del)  == IF del THEN Tail(AfterAcc(s, acc, m)) ELSE AfterAcc(s, acc, m)

---------------------------------------------------------------------------
Init == cap \in Caps /\ q = <<>> /\ accepted = <<>> /\ delivered = <<>>

Cycle(acc, m, del) ==
    /\ StepOK(cap, q, acc, del)
    /\ q' = NextQ(q, acc, m, del)
    /\ accepted'  = IF acc THEN Append(accepted, m) ELSE accepted
    /\ delivered' = IF del THEN Append(delivered, DelMsg(q, acc, m)) ELSE delivered
    /\ UNCHANGED cap

AnyMsg == CHOOSE x \in Msgs : TRUE
Next == \E acc \in BOOLEAN : \E m \in (IF acc THEN Msgs ELSE {AnyMsg}), del \in BOOLEAN : Cycle(acc, m, del)

Spec == Init /\ [][Next]_vars

HistBound == Len(accepted) <= MaxHist

---------------------------------------------------------------------------
TypeOK  == q \in Seq(Msgs)
Bounded == Len(q) <= cap

IsPrefix(a, b) == Len(a) <= Len(b) /\ \A i \in 1 .. Len(a) : a[i] = b[i]
DeliveredPrefix == IsPrefix(delivered, accepted)
Conservation    == accepted = delivered \o q

\* per step: nothing moves without a transfer, a delivery takes the oldest message
StepFifo == [][ /\ (Len(delivered') = Len(delivered) + 1 /\ q # <<>>) => delivered'[Len(delivered')] = Head(q)
                /\ Len(delivered') \in {Len(delivered), Len(delivered) + 1}
                /\ Len(accepted') \in {Len(accepted), Len(accepted) + 1}
                /\ (delivered' = delivered /\ accepted' = accepted) => q' = q
              ]_vars
=============================================================================
