---------------------------- MODULE CksumTrace ----------------------------
(***************************************************************************)
(* Trace validation of the checksum models (C20).  A trace is one input    *)
(* vector of eight 16-bit words with the results observed from the FL      *)
(* function `checksum`, from ChecksumCL and from ChecksumRTL (driven       *)
(* through their recv/send interfaces under several source/sink delays).   *)
(* Judge compares every observed result <<hi, lo>> with Cksum.tla.         *)
(*                                                                         *)
(* Trace := [id, w: Seq(0 .. 65535), obs: Seq(<<hi, lo>>)]                 *)
(* In "mc" mode (no input) TLC instead checks, for every vector over the   *)
(* boundary values BVals, that the fold equals the closed form and that the      *)
(* result halves are 16-bit.                                               *)
(***************************************************************************)
EXTENDS Cksum, TLC, Json, IOUtils, FiniteSets

CONSTANTS Mode, MCLen, BVals

Input  == JsonDeserialize(IOEnv.VERIF_INPUT)
Traces == IF Mode = "trace" THEN Input.traces ELSE <<>>

VARIABLES tid, fin, vec
cvars == <<tid, fin, vec>>

Init == IF Mode = "trace"
        THEN tid \in 1 .. Len(Traces) /\ fin = FALSE /\ vec = <<>>
        ELSE tid = 0 /\ fin = FALSE /\ vec \in [1 .. MCLen -> BVals]

T == Traces[tid]
Bad == {k \in 1 .. Len(T.obs) : T.obs[k] # Cksum(T.w)}

Judge == /\ Mode = "trace" /\ ~fin
         /\ IF Len(T.w) # 8 \/ \E i \in 1 .. 8 : T.w[i] \notin 0 .. 65535
            THEN PrintT(<<"V", tid, "bad-vector", 0>>)
            ELSE IF Bad = {} THEN PrintT(<<"V", tid, "ok", 0>>)
            ELSE /\ PrintT(<<"T", T.id, Cksum(T.w)[1], Cksum(T.w)[2]>>)
                 /\ PrintT(<<"V", tid, "checksum-differs", CHOOSE k \in Bad : \A j \in Bad : k <= j>>)
         /\ fin' = TRUE /\ UNCHANGED <<tid, vec>>

Check == /\ Mode = "mc" /\ ~fin
         /\ fin' = TRUE /\ UNCHANGED <<tid, vec>>

Next == Judge \/ Check
Spec == Init /\ [][Next]_cvars

FoldIsClosedForm == Mode = "mc" => Cksum(vec) = Closed(vec)
ResultIs32Bit    == Mode = "mc" => Cksum(vec)[1] \in 0 .. 65535 /\ Cksum(vec)[2] \in 0 .. 65535
\* swapping two neighbours keeps sum1 and moves sum2 by their difference: order matters
OrderMatters     == Mode = "mc" =>
                      \A i \in 1 .. Len(vec) - 1 :
                         LET sw == [vec EXCEPT ![i] = vec[i + 1], ![i + 1] = vec[i]]
                         IN  Cksum(sw)[2] = Cksum(vec)[2] /\
                             (Cksum(sw)[1] + vec[i]) % 65536 = (Cksum(vec)[1] + vec[i + 1]) % 65536
=============================================================================
