----------------------------- MODULE MagicMemMC -----------------------------
(***************************************************************************)
(* Model-checking wrapper of MagicMem.tla (C18): the request menu of each  *)
(* port and the initial image come from the harness as JSON                *)
(*   {"init": [bytes], "menu": [[req, ...] per port]}                      *)
(* and Send stamps the opaque field with the request's serial number on    *)
(* its port, so that a response attached to the wrong request is visible.  *)
(***************************************************************************)
EXTENDS MagicMem, Json, IOUtils, TLC

Input   == JsonDeserialize(IOEnv.VERIF_INPUT)
MCInit  == [x \in 0 .. W - 1 |-> Input.init[x + 1]]
MCMenu(p) == {Input.menu[p + 1][i] : i \in 1 .. Len(Input.menu[p + 1])}

ASSUME \A p \in 0 .. NPorts - 1 : \A r \in MCMenu(p) : ReqOK(W, r)

MCNext == \E p \in Ports : \/ \E r \in MCMenu(p) : Send(p, [r EXCEPT !.o = Len(sent[p])])
                           \/ Process(p)
                           \/ Deliver(p)

MCSpec == Init /\ [][MCNext]_vars

\* all requests of a complete run have been answered
Done == \A p \in Ports : Len(dlv[p]) = MaxReq
=============================================================================
