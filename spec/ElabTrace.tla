---------------------------- MODULE ElabTrace ----------------------------
(***************************************************************************)
(* Trace validation for C08 / C09: what the real pymtl3 did with a design  *)
(* is checked against Elab!Analysis of the design's descriptor.            *)
(*                                                                         *)
(* Trace := [p : "C08" | "C09", d : descriptor (see Elab.tla),             *)
(*           ev : Seq(Event)]                                              *)
(* Event := [k |-> "elab", out, nets, n]                                   *)
(*            the outcome of elaborate() observed for n statement          *)
(*            permutations / side flips of the design:                     *)
(*            out = "ok" or the exception class ("SignalTypeError:k" with  *)
(*            the [Type k] of its message); nets = get_all_value_nets()    *)
(*            projected to <<writer object, <<member objects>>>> (object   *)
(*            ids of the descriptor; 0 = an object the descriptor does not *)
(*            know)                                                        *)
(*        | [k |-> "sim", vals]                                            *)
(*            vals = <<<<object, value>>, ...>> of every net member after  *)
(*            sim_eval_combinational() / sim_tick() of the elaborated      *)
(*            design under DefaultPassGroup                                *)
(*                                                                         *)
(* Every event action is total: a disagreement sets `err` to the name of   *)
(* the failing clause.  Shapes on which the property statement is silent   *)
(* (Analysis.unspec # {}) accept every elaboration outcome.                *)
(***************************************************************************)
EXTENDS Naturals, Integers, Sequences, FiniteSets, TLC, Json, IOUtils

E == INSTANCE Elab WITH did <- 1, done <- {}, part <- {}, wr <- {}, reach <- {}, phase <- "", headed <- {},
                        verdict <- "", fin <- FALSE
   \* only the pure operators of Elab are used here

Traces == E!Input.traces

VARIABLES tid, l, err, fin, exp
tvars == <<tid, l, err, fin, exp>>

T  == Traces[tid]
Ev == T.ev[l]
ToSet(s) == {s[i] : i \in DOMAIN s}

Init == /\ tid \in 1 .. Len(Traces)
        /\ l = 1 /\ err = "ok" /\ fin = FALSE
        /\ exp = E!Analysis(Traces[tid].d, E!StmtIds(Traces[tid].d))

Fail(c) == err' = c /\ UNCHANGED <<tid, l, fin, exp>>
Step    == l' = l + 1 /\ UNCHANGED <<tid, err, fin, exp>>

ObsNets  == {ToSet(Ev.nets[i][2]) : i \in DOMAIN Ev.nets}
ObsPairs == {<<ToSet(Ev.nets[i][2]), Ev.nets[i][1]>> : i \in DOMAIN Ev.nets}
ExpPairs == {<<N, exp.writer[N]>> : N \in exp.nets}

\* T.p names the property the trace is validated for.  C09 is about accepting / rejecting (and the
\* error class); which nets and writers an accepted design gets is C08's subject.  C08's premise
\* is a design without defects (what happens to a design with defects is C09's subject).
ElabEv ==
    /\ Ev.k = "elab"
    /\ IF T.p = "C08" /\ exp.defects # {}                     THEN Step
       ELSE IF Ev.out = "ok"
       THEN IF exp.unspec # {} /\ exp.defects # {}            THEN Step
            ELSE IF exp.defects # {}                          THEN Fail("illegal-design-accepted")
            ELSE IF T.p = "C09"                               THEN Step
            ELSE IF ObsNets # exp.nets                        THEN Fail("nets-are-not-the-connected-components")
            ELSE IF ObsPairs # ExpPairs                       THEN Fail("wrong-writer")
            ELSE Step
       ELSE IF exp.unspec # {}                                THEN Step
            ELSE IF exp.defects = {}                          THEN Fail("legal-design-rejected")
            ELSE IF Ev.out \notin E!Images(exp.defects)       THEN Fail("wrong-error-class")
            ELSE Step

\* NetCoherent: every member of a net carries the writer's value.  (Nets with two members that
\* share a bit are either a defect -- two overlapping driven members -- or a shape the statement
\* is silent about -- a member overlapping the writer --, see Elab!Analysis: nothing is required.)
SelfOverlap(N) == \E u, v \in N : u # v /\ E!OBits(T.d, u) \cap E!OBits(T.d, v) # {}
SimEv ==
    /\ Ev.k = "sim"
    /\ LET V(o) == CHOOSE p \in ToSet(Ev.vals) : p[1] = o
           known == {p[1] : p \in ToSet(Ev.vals)}
       IN  IF exp.defects # {}                                THEN Step
           ELSE IF \E N \in exp.nets : ~(N \subseteq known)   THEN Fail("bad-trace-missing-value")
           ELSE IF \E N \in exp.nets : exp.writer[N] # 0 /\ ~SelfOverlap(N) /\
                      \E m \in N : V(m)[2] # V(exp.writer[N])[2] THEN Fail("net-incoherent")
           ELSE Step

Other == /\ Ev.k \notin {"elab", "sim"} /\ Fail("unknown-event")

Finish == /\ ~fin /\ (err # "ok" \/ l > Len(T.ev))
          /\ PrintT(<<"V", tid, err, l>>)
          /\ fin' = TRUE /\ UNCHANGED <<tid, l, err, exp>>

Next == \/ /\ ~fin /\ err = "ok" /\ l <= Len(T.ev)
           /\ (ElabEv \/ SimEv \/ Other)
        \/ Finish

Spec == Init /\ [][Next]_tvars
=============================================================================
