---------------------------- MODULE NamesTrace ----------------------------
(***************************************************************************)
(* Trace validation for C14: object tables logged from real pymtl3         *)
(* hierarchies are checked against Names.tla.                              *)
(*                                                                         *)
(* Trace := [mode : "shape" | "generic", shape : Shape (mode "shape"),     *)
(*           ev : Seq(Event)]                                              *)
(* Event := [k |-> "obj", e : 1 | 2 (which elaboration), name = repr(o),   *)
(*           kind, parent = repr(o.get_parent_object()) or "",             *)
(*           host = repr(o.get_host_component()) or "" (components),       *)
(*           level = o._dsl.level or -1, tls = repr(get_top_level_signal())*)
(*           or "", ev = (eval(repr(o), {'s': top}) is o),                 *)
(*           toks = the harness's tokenisation of name (checked here by    *)
(*                  rendering it back), pi = index of the event of the     *)
(*                  parent's row (0 = none; checked by name)]              *)
(*        | [k |-> "end", e]   (the table of elaboration e is complete)    *)
(*                                                                         *)
(* mode "shape": the hierarchy was generated from `shape`; every row must  *)
(*   be the row Names.tla predicts for an allowed object, every required   *)
(*   object must be present, and the name-level rule must hold too.        *)
(* mode "generic": a hierarchy shipped with the repository; only the       *)
(*   name-level rule (uniqueness, eval identity, parent / host / level /   *)
(*   top-level signal derived from the name).                              *)
(* Both: the second elaboration yields the same set of names.              *)
(***************************************************************************)
EXTENDS Naturals, Integers, Sequences, FiniteSets, TLC, Json, IOUtils

N == INSTANCE Names WITH MaxDecl <- 0, MaxDeclM <- 0, MaxMent <- 0, MaxSl <- 1, MaxDepth <- 3,
                         MaxFields <- 4, DimCodes <- {0}, SigTypes <- {"B1"}, SigKindsE <- {"Wire"},
                         MpKindsE <- {"CallerPort"}, ChainOnly <- FALSE, RagSize <- 0, RagDepth <- 0,
                         RagEmpty <- 0, decl <- <<>>, ment <- {}
   \* only the pure operators of Names are used here

Input  == JsonDeserialize(IOEnv.VERIF_INPUT)
Traces == Input.traces

VARIABLES tid, l, err, fin, inf, seen1, seen2
tvars == <<tid, l, err, fin, inf, seen1, seen2>>

T  == Traces[tid]
Ev == T.ev[l]

Init == /\ tid \in 1 .. Len(Traces)
        /\ l = 1 /\ err = "ok" /\ fin = FALSE
        /\ inf = IF Traces[tid].mode = "shape" THEN N!Info(Traces[tid].shape) ELSE <<>>
        /\ seen1 = {} /\ seen2 = {}

Fail(c) == err' = c /\ UNCHANGED <<tid, l, fin, inf, seen1, seen2>>

Step(r) == /\ l' = l + 1
           /\ IF r.e = 1 THEN seen1' = seen1 \cup {r.name} /\ UNCHANGED seen2
                         ELSE seen2' = seen2 \cup {r.name} /\ UNCHANGED seen1
           /\ UNCHANGED <<tid, err, fin, inf>>

ObjEv ==
    /\ Ev.k = "obj"
    /\ LET r    == Ev
           seen == IF r.e = 1 THEN seen1 ELSE seen2
           tab  == IF r.pi = 0 THEN <<>> ELSE (T.ev[r.pi].name :> T.ev[r.pi])
           gerr == N!GenericErr(tab, r)
       IN  IF r.name \in seen THEN Fail("duplicate-name")
           ELSE IF ~r.ev THEN Fail("eval-does-not-return-the-object")
           ELSE IF T.mode = "generic" THEN (IF gerr # "ok" THEN Fail(gerr) ELSE Step(r))
           ELSE IF N!Render(r.toks) # r.name THEN Fail("name-not-parseable")
           ELSE LET o  == N!ObjOfToks(inf, r.toks)
                    pr == N!PredRow(inf, o)
                IN  IF ~N!IsAllowed(inf, o) THEN Fail("name-not-allowed")
                    ELSE IF r.kind # pr.kind THEN Fail("wrong-kind")
                    ELSE IF r.parent # pr.parent THEN Fail("wrong-parent")
                    ELSE IF r.host # pr.host THEN Fail("wrong-host")
                    ELSE IF r.level \notin (IF o.v = <<>> THEN {pr.level} ELSE {N!NoLevel, Len(r.toks)})
                        THEN Fail("wrong-level")
                    ELSE IF r.tls # pr.tls THEN Fail("wrong-top-level-signal")
                    ELSE IF gerr # "ok" THEN Fail(gerr)
                    ELSE Step(r)

EndEv ==
    /\ Ev.k = "end"
    /\ IF Ev.e = 1 /\ T.mode = "shape"
          /\ ~({N!Name(o) : o \in N!Required(T.shape, inf)} \subseteq seen1)
          THEN Fail("required-object-missing")
       ELSE IF Ev.e = 2 /\ seen2 # seen1 THEN Fail("re-elaboration-differs")
       ELSE l' = l + 1 /\ UNCHANGED <<tid, err, fin, inf, seen1, seen2>>

Other == /\ Ev.k \notin {"obj", "end"} /\ Fail("unknown-event")

Finish == /\ ~fin /\ (err # "ok" \/ l > Len(T.ev))
          /\ PrintT(<<"V", tid, err, l>>)
          /\ fin' = TRUE /\ UNCHANGED <<tid, l, err, inf, seen1, seen2>>

Next == \/ /\ ~fin /\ err = "ok" /\ l <= Len(T.ev)
           /\ (ObjEv \/ EndEv \/ Other)
        \/ Finish

Spec == Init /\ [][Next]_tvars
=============================================================================
