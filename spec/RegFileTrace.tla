---------------------------- MODULE RegFileTrace ----------------------------
(***************************************************************************)
(* Trace validation for the register-file part of C17: port histories      *)
(* recorded from the real RegisterFile / RegisterFileRst are checked to be *)
(* behaviours of RegFile.tla.  One TLC run validates a batch of traces of  *)
(* files of different shapes.                                              *)
(*                                                                         *)
(* Trace := [n: number of registers, cz: 0/1 const_zero, hr: 0/1 the class *)
(*           has a reset term (RegisterFileRst), rv: reset value,          *)
(*           init: Seq(Int) contents observed before the first event,      *)
(*           ev: Seq(Event)]                                               *)
(* Event := [ra, rd : Seq(Int)   read addresses and the data returned      *)
(*           wa, wd, we : Seq    write ports (we: 0/1)                     *)
(*           rst    : 0/1        reset input                               *)
(*           regs   : Seq(Int)   contents after the clock edge (white box; *)
(*                               <<>> = not recorded)                      *)
(*           bad    : STRING ]                                             *)
(* Values are integers below 2^31 (the harness keeps payloads that small). *)
(***************************************************************************)
EXTENDS Integers, Sequences, FiniteSets, TLC, Json, IOUtils

R == INSTANCE RegFile WITH NRegs <- 1, RdPorts <- 1, WrPorts <- 1, Vals <- {}, ConstZero <- FALSE,
                           HasReset <- FALSE, ResetValue <- 0, regs <- <<>>, out <- <<>>
   \* only the pure operators are used

Input  == JsonDeserialize(IOEnv.VERIF_INPUT)
Traces == Input.traces

VARIABLES tid, l, err, fin, regs, nwr
tvars == <<tid, l, err, fin, regs, nwr>>

T  == Traces[tid]
Ev == T.ev[l]
B(x) == x = 1
AsFun(s) == [a \in 0 .. Len(s) - 1 |-> s[a + 1]]
Bools(s) == [i \in DOMAIN s |-> s[i] = 1]

Init == /\ tid \in 1 .. Len(Traces)
        /\ l = 1 /\ err = "ok" /\ fin = FALSE /\ nwr = 0
        /\ regs = AsFun(Traces[tid].init)

Fail(c) == err' = c /\ UNCHANGED <<tid, l, fin, regs, nwr>>

\* the first wrong read port / the first register that differs, for the clause name
BadRead(r)  == {i \in DOMAIN Ev.ra : Ev.rd[i] # r[Ev.ra[i]]}
Differs(r2) == {a \in DOMAIN r2 : Ev.regs[a + 1] # r2[a]}
Written     == {Ev.wa[i] : i \in {j \in DOMAIN Ev.wa : Ev.we[j] = 1}}

CycleEv ==
    LET n  == T.n
        cz == B(T.cz)
        hr == B(T.hr)
        r2 == R!NextRegs(cz, hr, T.rv, regs, Ev.wa, Ev.wd, Bools(Ev.we), B(Ev.rst))
    IN  IF Len(T.init) # n \/ Len(Ev.ra) # Len(Ev.rd) \/ Len(Ev.wa) # Len(Ev.wd) \/ Len(Ev.wa) # Len(Ev.we)
           \/ (\E i \in DOMAIN Ev.ra : Ev.ra[i] \notin 0 .. n - 1)
           \/ (\E i \in DOMAIN Ev.wa : Ev.wa[i] \notin 0 .. n - 1)
           \/ Len(Ev.regs) \notin {0, n}                  THEN Fail("bad-trace")
        ELSE IF Ev.bad # ""                               THEN Fail(Ev.bad)
        ELSE IF l = 1 /\ hr /\ (\E a \in DOMAIN regs : regs[a] # T.rv)
                                                          THEN Fail("reset-value-not-loaded")
        ELSE IF l = 1 /\ ~hr /\ (\E a \in DOMAIN regs : regs[a] # 0)
                                                          THEN Fail("initial-contents-not-zero")
        ELSE IF BadRead(regs) # {}                        THEN Fail("read-data-differs-from-contents")
        ELSE IF Len(Ev.regs) = n /\ Differs(r2) # {}      THEN
                 Fail(IF hr /\ B(Ev.rst) THEN "reset-value-not-loaded"
                      ELSE IF cz /\ 0 \in Differs(r2) THEN "const-zero-register-changed"
                      ELSE IF \E a \in Differs(r2) : a \notin Written THEN "register-changed-without-write"
                      ELSE IF \E a \in Differs(r2) : Ev.regs[a + 1] = regs[a] THEN "write-lost"
                      ELSE "wrong-value-written")
        ELSE /\ regs' = r2
             /\ nwr' = nwr + Cardinality({i \in DOMAIN Ev.we : Ev.we[i] = 1})
             /\ l' = l + 1 /\ UNCHANGED <<tid, err, fin>>

Finish == /\ ~fin /\ (err # "ok" \/ l > Len(T.ev))
          /\ PrintT(<<"V", tid, err, l>>)
          /\ PrintT(<<"T", tid, nwr, l - 1>>)
          /\ fin' = TRUE /\ UNCHANGED <<tid, l, err, regs, nwr>>

Next == \/ /\ ~fin /\ err = "ok" /\ l <= Len(T.ev) /\ CycleEv
        \/ Finish

Spec == Init /\ [][Next]_tvars
=============================================================================
