--------------------------------- MODULE DL ---------------------------------
(***************************************************************************)
(* The design language: an executable meaning for the update-block bodies   *)
(* of generated designs (DESIGN.md 3.2).  The same JSON AST is pretty-      *)
(* printed as PyMTL source by harness/designgen.py and interpreted here.    *)
(*                                                                         *)
(* A design descriptor D (one JSON object) is                              *)
(*   D.sigs  : Seq([w: Nat, init: Nat, inp: BOOLEAN, reg: BOOLEAN,          *)
(*                  rep: sig, al: Seq(sig)])                                *)
(*             one entry per top-level signal; values are naturals < 2^w,   *)
(*             struct-typed signals are their packed value.  Whole-signal   *)
(*             members of one net are ONE storage cell in pymtl3 (they      *)
(*             share a Python object after lock_in_simulation): `al` lists  *)
(*             the signals sharing the cell of this one (itself included),  *)
(*             `rep` is the smallest of them.  A write goes to every alias, *)
(*             footprints are taken on `rep`.                               *)
(*   D.steps : Seq([name, kind: "comb"|"net"|"ff", once: BOOLEAN,           *)
(*                  stmts: Seq(Stmt)])   (once: an @update_once block)      *)
(*   D.explicit : Seq(<<i, j>>)  step i is explicitly constrained before j *)
(*   D.checkfix : BOOLEAN  the design is a pure dataflow network (no        *)
(*             explicit constraint inverts a value dependency), so every   *)
(*             evaluation must end in THE fixed point of its equations     *)
(*                                                                         *)
(* Stmt ::= [k:"as",  t:[s,lo,hi], al, e:Expr]   target bits lo..hi-1 of s *)
(*        | [k:"asi", arr:Seq(sig), i:Expr, e:Expr]   arr[i] := e (whole)  *)
(*        | [k:"if",  c:Expr, th:Seq(Stmt), el:Seq(Stmt)]                  *)
(*        | [k:"asv", s, al, b:Expr, w, e:Expr]  s[b : b+w] := e  (slice with a computed base) *)
(* Expr ::= [k:"sig", s, lo, hi] | [k:"lit", v, w] | [k:"idx",arr,i,lo,hi]*)
(*        | [k:"vsl", s, b:Expr, w]   s[b : b+w], a slice whose bounds are computed from signals *)
(*        | [k:"not", a, w] | [k:"bin", op, a, b, w]   (operands width w)  *)
(*        | [k:"cmp", op, a, b] | [k:"ite", c, a, b]                       *)
(*        | [k:"zext", a] | [k:"trunc", a, w] | [k:"sext", a, aw, w]       *)
(*        | [k:"cat", hi, lo, low]   (concat(hi, lo), lo is low bits wide) *)
(*        | [k:"red", op, a, aw]                                           *)
(* Operator meanings are the ones property C04/C05 establish for Bits:      *)
(* arithmetic modulo 2^w, comparisons 1 bit, shifts >= w give 0.           *)
(***************************************************************************)
EXTENDS Naturals, Sequences, FiniteSets, Bitwise, TLC

Pow2(n) == 2 ^ n
Slice(v, lo, hi)       == (v \div Pow2(lo)) % Pow2(hi - lo)
SetSlice(v, lo, hi, x) == v - Slice(v, lo, hi) * Pow2(lo) + (x % Pow2(hi - lo)) * Pow2(lo)
Bit(v, i)              == (v \div Pow2(i)) % 2

RECURSIVE PopCount(_, _)
PopCount(v, w) == IF w = 0 THEN 0 ELSE (v % 2) + PopCount(v \div 2, w - 1)

RECURSIVE Eval(_, _)
Eval(e, val) ==
  CASE e.k = "sig"   -> Slice(val[e.s], e.lo, e.hi)
    [] e.k = "lit"   -> e.v
    [] e.k = "idx"   -> Slice(val[e.arr[Eval(e.i, val) + 1]], e.lo, e.hi)
    [] e.k = "vsl"   -> LET b == Eval(e.b, val) IN Slice(val[e.s], b, b + e.w)
    [] e.k = "not"   -> (Pow2(e.w) - 1) - Eval(e.a, val)
    [] e.k = "bin"   ->
         LET a == Eval(e.a, val)  b == Eval(e.b, val)  m == Pow2(e.w) IN
         (CASE e.op = "add" -> (a + b) % m
            [] e.op = "sub" -> (a + m - b) % m
            [] e.op = "mul" -> (a * b) % m
            [] e.op = "and" -> a & b
            [] e.op = "or"  -> a | b
            [] e.op = "xor" -> a ^^ b
            [] e.op = "shl" -> IF b >= e.w THEN 0 ELSE (a * Pow2(b)) % m
            [] e.op = "shr" -> IF b >= e.w THEN 0 ELSE a \div Pow2(b))
    [] e.k = "cmp"   ->
         LET a == Eval(e.a, val)  b == Eval(e.b, val) IN
         (CASE e.op = "eq" -> IF a = b  THEN 1 ELSE 0
            [] e.op = "ne" -> IF a # b  THEN 1 ELSE 0
            [] e.op = "lt" -> IF a < b  THEN 1 ELSE 0
            [] e.op = "le" -> IF a <= b THEN 1 ELSE 0
            [] e.op = "gt" -> IF a > b  THEN 1 ELSE 0
            [] e.op = "ge" -> IF a >= b THEN 1 ELSE 0)
    [] e.k = "ite"   -> IF Eval(e.c, val) # 0 THEN Eval(e.a, val) ELSE Eval(e.b, val)
    [] e.k = "zext"  -> Eval(e.a, val)
    [] e.k = "trunc" -> Eval(e.a, val) % Pow2(e.w)
    [] e.k = "sext"  -> LET a == Eval(e.a, val) IN
                        IF Bit(a, e.aw - 1) = 1 THEN a + (Pow2(e.w) - Pow2(e.aw)) ELSE a
    [] e.k = "cat"   -> Eval(e.hi, val) * Pow2(e.low) + Eval(e.lo, val)
    [] e.k = "red"   -> LET a == Eval(e.a, val) IN
         (CASE e.op = "and" -> IF a = Pow2(e.aw) - 1 THEN 1 ELSE 0
            [] e.op = "or"  -> IF a # 0 THEN 1 ELSE 0
            [] e.op = "xor" -> PopCount(a, e.aw) % 2)

(* A write reaches every signal that shares the storage cell (st.al = aliases of the target, *)
(* copied into the statement by the harness from D.sigs[target].al).                        *)
\* (written with EXCEPT so that TLC keeps explicit function values instead of chains of closures)
RECURSIVE WriteFrom(_, _, _, _)
WriteFrom(al, v, x, i) == IF i > Len(al) THEN v ELSE WriteFrom(al, [v EXCEPT ![al[i]] = x], x, i + 1)
WriteCell(al, v, x) == WriteFrom(al, v, x, 1)

(* Blocking assignment (@=): later statements of the block see earlier writes. *)
RECURSIVE ExecStmts(_, _)
ExecStmt(st, v) ==
  CASE st.k = "as"  -> WriteCell(st.al, v, SetSlice(v[st.t.s], st.t.lo, st.t.hi, Eval(st.e, v)))
    [] st.k = "asi" -> [v EXCEPT ![st.arr[Eval(st.i, v) + 1]] = Eval(st.e, v)]
    [] st.k = "asv" -> LET b == Eval(st.b, v) IN WriteCell(st.al, v, SetSlice(v[st.s], b, b + st.w, Eval(st.e, v)))
    [] st.k = "if"  -> IF Eval(st.c, v) # 0 THEN ExecStmts(st.th, v) ELSE ExecStmts(st.el, v)
ExecStmts(ss, v) == IF ss = <<>> THEN v ELSE ExecStmts(Tail(ss), ExecStmt(Head(ss), v))

(* Non-blocking assignment (<<=): every read sees `v` (pre-edge); writes go to the pending copy n, *)
(* the last assignment executed wins.                                                              *)
RECURSIVE ExecFFStmts(_, _, _)
ExecFFStmt(st, v, n) ==
  CASE st.k = "as"  -> WriteCell(st.al, n, SetSlice(n[st.t.s], st.t.lo, st.t.hi, Eval(st.e, v)))
    [] st.k = "asi" -> [n EXCEPT ![st.arr[Eval(st.i, v) + 1]] = Eval(st.e, v)]
    [] st.k = "asv" -> LET b == Eval(st.b, v) IN WriteCell(st.al, n, SetSlice(n[st.s], b, b + st.w, Eval(st.e, v)))
    [] st.k = "if"  -> IF Eval(st.c, v) # 0 THEN ExecFFStmts(st.th, v, n) ELSE ExecFFStmts(st.el, v, n)
ExecFFStmts(ss, v, n) == IF ss = <<>> THEN n ELSE ExecFFStmts(Tail(ss), v, ExecFFStmt(Head(ss), v, n))

---------------------------------------------------------------------------
(* Syntactic footprints: sets of <<signal, bit>> (signal identity, not storage cell).  Both branches of an `if`,  *)
(* the whole array for a variable index -- the convention pymtl3 documents. *)

SigBits(D, s) == {<<s, b>> : b \in 0 .. D.sigs[s].w - 1}
ArrBits(D, arr) == UNION {SigBits(D, arr[i]) : i \in DOMAIN arr}

RECURSIVE ERefs(_, _)
ERefs(D, e) ==
  CASE e.k = "sig"  -> {<<e.s, b>> : b \in e.lo .. e.hi - 1}
    [] e.k = "lit"  -> {}
    [] e.k = "idx"  -> UNION {{<<e.arr[j], b>> : b \in e.lo .. e.hi - 1} : j \in DOMAIN e.arr}
                        \cup ERefs(D, e.i)
    \* computed bounds: the whole signal counts as read (pymtl3's convention), and so do the signals in the bounds
    [] e.k = "vsl"  -> SigBits(D, e.s) \cup ERefs(D, e.b)
    [] e.k \in {"not", "zext", "trunc", "sext", "red"} -> ERefs(D, e.a)
    [] e.k \in {"bin", "cmp"} -> ERefs(D, e.a) \cup ERefs(D, e.b)
    [] e.k = "ite"  -> ERefs(D, e.c) \cup ERefs(D, e.a) \cup ERefs(D, e.b)
    [] e.k = "cat"  -> ERefs(D, e.hi) \cup ERefs(D, e.lo)

RECURSIVE StmtsR(_, _), StmtsW(_, _)
StmtR(D, st) == CASE st.k = "as"  -> ERefs(D, st.e)
                  [] st.k = "asi" -> ERefs(D, st.e) \cup ERefs(D, st.i)
                  [] st.k = "asv" -> ERefs(D, st.e) \cup ERefs(D, st.b)
                  [] st.k = "if"  -> ERefs(D, st.c) \cup StmtsR(D, st.th) \cup StmtsR(D, st.el)
StmtW(D, st) == CASE st.k = "as"  -> {<<st.t.s, b>> : b \in st.t.lo .. st.t.hi - 1}
                  [] st.k = "asi" -> ArrBits(D, st.arr)
                  [] st.k = "asv" -> SigBits(D, st.s)
                  [] st.k = "if"  -> StmtsW(D, st.th) \cup StmtsW(D, st.el)
StmtsR(D, ss) == UNION {StmtR(D, ss[i]) : i \in DOMAIN ss}
StmtsW(D, ss) == UNION {StmtW(D, ss[i]) : i \in DOMAIN ss}

(* A net-propagation step reads its writer object and writes every member object (nr / nw: lists  *)
(* of <<signal, lo, hi>>), also the members that share the writer's storage cell and need no copy  *)
(* in this model: the statement orders blocks against the net step as a unit.                      *)
ViewBits(vs) == UNION {{<<vs[i][1], b>> : b \in vs[i][2] .. vs[i][3] - 1} : i \in DOMAIN vs}
RBits(D, b) == StmtsR(D, D.steps[b].stmts) \cup ViewBits(D.steps[b].nr)
WBits(D, b) == StmtsW(D, D.steps[b].stmts) \cup ViewBits(D.steps[b].nw)

Steps(D)     == DOMAIN D.steps
CombSteps(D) == {b \in Steps(D) : D.steps[b].kind \in {"comb", "net"}}
FFSteps(D)   == {b \in Steps(D) : D.steps[b].kind = "ff"}
Explicit(D)  == {<<D.explicit[i][1], D.explicit[i][2]>> : i \in DOMAIN D.explicit}

(* C02: a step that writes any bit runs before every step that reads an overlapping bit,  *)
(* unless an explicit constraint inverts the pair; explicit constraints are honoured too. *)
MustPrecede(D, a, b) ==
    /\ a # b
    /\ \/ <<a, b>> \in Explicit(D)
       \/ /\ WBits(D, a) \cap RBits(D, b) # {}
          /\ <<b, a>> \notin Explicit(D)

Exec(D, b, v)      == ExecStmts(D.steps[b].stmts, v)
ExecFF(D, b, v, n) == ExecFFStmts(D.steps[b].stmts, v, n)
Stable(D, v)       == \A b \in CombSteps(D) : Exec(D, b, v) = v

(* Transitive closure of MustPrecede on the comb steps, as a set of pairs; cyclic groups = SCCs. *)
(* TLCEval forces explicit values (TLC would otherwise re-evaluate the lazy set at every use).    *)
Edges(D) == TLCEval({p \in CombSteps(D) \X CombSteps(D) : MustPrecede(D, p[1], p[2])})
RECURSIVE TC(_, _)
TC(R, S) == LET R2 == TLCEval(R \cup {p \in S \X S : \E m \in S : <<p[1], m>> \in R /\ <<m, p[2]>> \in R})
            IN  IF R2 = R THEN R ELSE TC(R2, S)
Reach(D) == TC(Edges(D), CombSteps(D))

(* The unique solution of the dataflow equations of a bit-level acyclic design, from state v0:     *)
(* sweep all comb steps in index order K times; K = number of statements + 1 bounds the length of *)
(* any bit-level dependency chain.  Independent of any schedule.                                  *)
RECURSIVE SweepOnce(_, _, _)
SweepOnce(D, bs, v) == IF bs = <<>> THEN v ELSE SweepOnce(D, Tail(bs), Exec(D, Head(bs), v))
RECURSIVE SweepN(_, _, _, _)
SweepN(D, bs, v, k) ==
    IF k = 0 THEN v
    ELSE LET v2 == SweepOnce(D, bs, v) IN IF v2 = v THEN v ELSE SweepN(D, bs, v2, k - 1)
RECURSIVE SeqOfSet(_)
SeqOfSet(S) == IF S = {} THEN <<>>
               ELSE LET m == CHOOSE x \in S : \A y \in S : x <= y IN <<m>> \o SeqOfSet(S \ {m})
Ref(D, v0) == SweepN(D, SeqOfSet(CombSteps(D)), v0, D.depth + 1)

(* Clock edge: all flip-flop steps read the pre-edge state v; registers commit together. *)
RECURSIVE FFAll(_, _, _, _)
FFAll(D, bs, v, n) == IF bs = <<>> THEN n ELSE FFAll(D, Tail(bs), v, ExecFF(D, Head(bs), v, n))
Commit(D, v, n) == TLCEval([s \in DOMAIN v |-> IF D.sigs[s].reg THEN n[s] ELSE v[s]])
EdgeRef(D, v)  == Commit(D, v, FFAll(D, SeqOfSet(FFSteps(D)), v, v))
=============================================================================
