-------------------------- MODULE RTLIRTypesTrace --------------------------
(***************************************************************************)
(* Trace validation for C10.  One trace = one update block (or one integer *)
(* literal).  The harness flattens the block's AST into `nodes` (children  *)
(* before parents, every reference points to an earlier position) and logs *)
(* for every node what the real type checker assigned (sw, sx) and what    *)
(* evaluating the same Python AST node in the simulated component gave     *)
(* (rk, rw, rc).  The spec recomputes the node's width from the rule       *)
(* table (RTLIRTypes.tla), one node per step, and compares.                *)
(*                                                                         *)
(* Trace  := [kind |-> "block", accepted: BOOLEAN, nodes: Seq(Node),       *)
(*            sim: [raised: BOOLEAN, cat: "width" | "other" | ""]]         *)
(*         | [kind |-> "lit", limbs: Seq(0..32767), sw: Nat]               *)
(* Node   := [k, <kind specific fields>,                                   *)
(*            sw: static width (0: none), sx: static _is_explicit,         *)
(*            rk: "none" | "bits" | "int" | "exc" | "mixed",               *)
(*            rw: nbits / bit length of the largest int seen,              *)
(*            rc: "" | "width" | "other", role: "" | "hi"]                 *)
(*   k = sig(ty) field(a, name) num(limbs) bconst(w, limbs) cast(n, a)     *)
(*       unop(op, a) binop(op, a, b) shift(op, a, b) cmp(op, a, b)         *)
(*       ifexp(c, a, b) concat(args) zext|sext|trunc(n, a) reduce(a)       *)
(*       bit(a, i) elem(n, ty, i) slice(a, lo, hi) loopvar(f) tmp(v)       *)
(*       idx(a, i) sinst(ty, args)                                         *)
(*       tmpdef assign(t, v) if(c) for(s, e, st) opq(w, ex)                *)
(* `ty` is the shape of the declared Python type (BitStruct.tla: leaf /    *)
(* struct / list) as the harness reads it from the bitstruct class's field *)
(* declarations; the widths of structs, of their fields at every depth and *)
(* of (partially indexed) list fields are computed here from the shape.    *)
(* `opq` is a node the model does not interpret (its declared static type  *)
(* is taken as given; only static = run-time is required of it).           *)
(***************************************************************************)
EXTENDS Naturals, Integers, Sequences, FiniteSets, TLC, Json, IOUtils

R == INSTANCE RTLIRTypes WITH SigWidths <- {}, Nums <- {}, LoopHi <- {}, TargetWidths <- {},
                              MaxDepth <- 0, e <- 0, d <- 0, tw <- 0
   \* only the pure rule operators of RTLIRTypes are used here

Input  == JsonDeserialize(IOEnv.VERIF_INPUT)
Traces == Input.traces

VARIABLES tid, l, err, fin,
          A,      \* Infos of the nodes typed so far
          flg     \* [mis: some node is an ExplicitMismatch, exc: cast / shift excuse seen,
                  \*  uns: some expression is outside the model]
tvars == <<tid, l, err, fin, A, flg>>

T == Traces[tid]
NEvents(t) == IF t.kind = "block" THEN Len(t.nodes) + 1 ELSE 1

ExprKinds == {"sig", "field", "num", "bconst", "cast", "unop", "binop", "shift", "cmp", "ifexp",
              "concat", "zext", "sext", "trunc", "reduce", "bit", "elem", "slice", "loopvar",
              "tmp", "opq", "idx", "sinst"}
StmtKinds == {"tmpdef", "assign", "if", "for"}

Kids(n) ==
    CASE n.k \in {"field", "cast", "unop", "zext", "sext", "trunc", "reduce"} -> <<n.a>>
      [] n.k \in {"binop", "shift", "cmp"} -> <<n.a, n.b>>
      [] n.k = "ifexp"   -> <<n.c, n.a, n.b>>
      [] n.k \in {"concat", "sinst"} -> n.args
      [] n.k \in {"bit", "idx"} -> <<n.a, n.i>>
      [] n.k = "elem"    -> <<n.i>>
      [] n.k = "slice"   -> <<n.a, n.lo, n.hi>>
      [] n.k = "loopvar" -> <<n.f>>
      [] n.k = "tmp"     -> <<n.v>>
      [] n.k = "assign"  -> <<n.t, n.v>>
      [] n.k = "if"      -> <<n.c>>
      [] n.k = "for"     -> <<n.s, n.e, n.st>>
      [] OTHER           -> <<>>

WellFormed(n, pos) ==
    /\ n.k \in ExprKinds \cup StmtKinds
    /\ \A j \in 1 .. Len(Kids(n)) : Kids(n)[j] >= 1 /\ Kids(n)[j] < pos
    /\ (n.k \in {"num", "bconst"} => R!LimbsOK(n.limbs))
    /\ (n.k \in {"sig", "elem", "sinst"} => R!BS!WellFormed(n.ty))

\* an expression one of whose operands is outside the model is outside the model
KidsModelled(n, a) == \A j \in 1 .. Len(Kids(n)) : a[Kids(n)[j]].w > 0

NodeInfo(n, a) ==
    IF n.k \in (ExprKinds \ {"loopvar"}) /\ ~KidsModelled(n, a) THEN R!Unsup
    ELSE
    CASE n.k = "sig"     -> R!SigInfoT(n.ty)
      [] n.k = "opq"     -> R!Info(n.w, n.ex, FALSE, 0, FALSE)
      [] n.k = "field"   -> R!FieldInfo(a[n.a], n.name)
      [] n.k = "idx"     -> R!ItemInfo(a[n.a], a[n.i])
      [] n.k = "sinst"   -> R!StructInstInfo(n.ty, [j \in 1 .. Len(n.args) |-> a[n.args[j]]])
      [] n.k = "num"     -> R!NumInfoL(n.limbs)
      [] n.k = "bconst"  -> R!BConstInfoL(n.w, n.limbs)
      [] n.k = "cast"    -> R!CastInfo(n.n, a[n.a])
      [] n.k = "unop"    -> R!UnInfo(n.op, a[n.a])
      [] n.k = "binop"   -> R!BinInfo(n.op, a[n.a], a[n.b])
      [] n.k = "shift"   -> R!ShiftInfo(n.op, a[n.a], a[n.b])
      [] n.k = "cmp"     -> R!CmpInfo(a[n.a], a[n.b])
      [] n.k = "ifexp"   -> R!IfExpInfo(a[n.c], a[n.a], a[n.b])
      [] n.k = "concat"  -> R!ConcatInfo([j \in 1 .. Len(n.args) |-> a[n.args[j]]])
      [] n.k = "zext"    -> R!ZextInfo(n.n, a[n.a])
      [] n.k = "sext"    -> R!SextInfo(n.n, a[n.a])
      [] n.k = "trunc"   -> R!TruncInfo(n.n, a[n.a])
      [] n.k = "reduce"  -> R!ReduceInfo(a[n.a])
      [] n.k = "bit"     -> R!BitInfo(a[n.a], a[n.i])
      [] n.k = "elem"    -> R!ElemInfo(n.n, n.ty, a[n.i])
      [] n.k = "slice"   -> R!SliceInfo(a[n.a], a[n.lo], a[n.hi])
      [] n.k = "loopvar" -> (IF a[n.f].w > 0 THEN R!LoopVarInfo(a[n.f]) ELSE R!Unsup)
      \* a temporary: width / type of the value assigned last (all assignments must agree on the data type);
      \* explicitly sized as soon as ANY assignment seen so far assigned an explicitly sized value - at run
      \* time the temporary may hold that Bits value whichever assignment the checker visited last
      [] n.k = "tmp"     -> [R!TmpInfo(a[n.v]) EXCEPT !.ex = \E j \in DOMAIN n.vs : a[n.vs[j]].ex]
      [] n.k = "for"     -> R!ForInfo(a[n.s], a[n.e], a[n.st])
      [] n.k = "assign"  -> R!AssignInfo(a[n.t], a[n.v])
      [] OTHER           -> R!NoInfo           \* tmpdef, if

\* width an inferred node needs: the exclusive upper bound of a slice needs to hold hi - 1
Need(n, i) == IF n.role = "hi" /\ i.kv /\ i.val >= 1 THEN R!BitLenNat(i.val - 1) ELSE i.w

\* static = rule table = run time, for one node of an accepted block
Check(n, i) ==
    IF n.k \in StmtKinds \/ i.w = 0 \/ n.sw = 0 THEN "ok"
    ELSE IF n.sx # i.ex THEN "explicitness-differs-from-rule-table"
    ELSE IF i.ex /\ n.sw # i.w THEN "static-width-differs-from-rule-table"
    ELSE IF ~i.ex /\ n.sw < Need(n, i) THEN "inferred-width-too-small"
    ELSE IF n.rk = "mixed" THEN "runtime-width-varies"
    ELSE IF n.rk = "bits" /\ n.rw # n.sw THEN "runtime-width-differs-from-static"
    ELSE IF n.rk = "int" /\ n.role # "hi" /\ n.rw > n.sw THEN "runtime-int-exceeds-static-width"
    ELSE "ok"

Init == /\ tid \in 1 .. Len(Traces)
        /\ l = 1 /\ err = "ok" /\ fin = FALSE
        /\ A = <<>>
        /\ flg = [mis |-> FALSE, exc |-> FALSE, uns |-> FALSE]

Fail(c) == err' = c /\ UNCHANGED <<tid, l, fin, A, flg>>

NodeEv ==
    /\ T.kind = "block" /\ l <= Len(T.nodes)
    /\ LET n == T.nodes[l]
       IN  IF ~WellFormed(n, l) THEN Fail("bad-trace-node")
           ELSE LET i == NodeInfo(n, A)
                    c == IF T.accepted THEN Check(n, i) ELSE "ok"
                IN  IF c # "ok" THEN Fail(c)
                    ELSE /\ A' = Append(A, i)
                         /\ flg' = [mis |-> flg.mis \/ i.mis,
                                    exc |-> flg.exc \/ i.cchg \/ i.sune,
                                    uns |-> flg.uns \/ (n.k \in ExprKinds /\ i.w = 0)]
                         /\ l' = l + 1 /\ UNCHANGED <<tid, err, fin>>

SimEv ==
    /\ T.kind = "block" /\ l = Len(T.nodes) + 1
    /\ LET werr == T.sim.raised /\ T.sim.cat = "width"
       IN  IF T.accepted /\ werr /\ flg.mis THEN Fail("explicit-mismatch-not-rejected")
           ELSE IF T.accepted /\ werr /\ ~flg.exc /\ ~flg.uns THEN Fail("accepted-block-raises-width-error")
           ELSE l' = l + 1 /\ UNCHANGED <<tid, err, fin, A, flg>>

LitEv ==
    /\ T.kind = "lit" /\ l = 1
    /\ IF ~R!LimbsOK(T.limbs) THEN Fail("bad-trace-literal")
       ELSE IF T.sw # R!BitLenLimbs(T.limbs) THEN Fail("literal-width-is-not-minimal")
       ELSE l' = l + 1 /\ UNCHANGED <<tid, err, fin, A, flg>>

Other == /\ T.kind \notin {"block", "lit"} /\ Fail("unknown-trace-kind")

Finish == /\ ~fin /\ (err # "ok" \/ l > NEvents(T))
          /\ PrintT(<<"V", tid, err, l>>)
          /\ fin' = TRUE /\ UNCHANGED <<tid, l, err, A, flg>>

Next == \/ /\ ~fin /\ err = "ok" /\ l <= NEvents(T)
           /\ (NodeEv \/ SimEv \/ LitEv \/ Other)
        \/ Finish

Spec == Init /\ [][Next]_tvars
=============================================================================
