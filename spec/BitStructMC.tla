---------------------------- MODULE BitStructMC ----------------------------
(***************************************************************************)
(* C06, bounded family of bitstruct shapes.                                *)
(*                                                                         *)
(* Family(MaxNodes): every struct shape with                               *)
(*   - struct nesting depth <= 3 (top level struct = depth 1),             *)
(*   - 1 .. MaxFields fields per struct, named a, b, c,                    *)
(*   - field type = leaf | struct | 1- or 2-dimensional list of them with  *)
(*     every dimension in ListNs (1-element lists included),               *)
(*   - leaf widths in Widths,                                              *)
(*   - at most MaxNodes nodes in the shape tree (Leaf = 1, List(n, t) =    *)
(*     1 + t, Struct = 1 + fields; a 2x2 list of T is List(2, List(2, T)) *)
(*     = 2 + T).                                                           *)
(* FamSeq is the family as a sequence; `sid` is the index of a shape.      *)
(*                                                                         *)
(* For every shape TLC (1) checks ShapeOK (layout partition, field order,  *)
(* width = sum of leaves, both round trips -- over ALL bit vectors when    *)
(* the shape has at most ExhBits bits, over the distinguishing sample      *)
(* otherwise); (2) walks the aliasing script Script(shape) on three        *)
(* objects x, y, z with the Step function of BitStruct.tla, checking that  *)
(* only the destination object of an action changes and that values stay   *)
(* well formed; (3) at the end of the behaviour writes the case (shape,     *)
(* nbits, layout, sample values with their packed bits, the resolved       *)
(* script with the packed value of the destination object after every     *)
(* step -- the `log` variable) as JSON to $VERIF_OUT/c<sid>.json for the   *)
(* harness, which replays it on classes built by @bitstruct and            *)
(* mk_bitstruct.                                                           *)
(***************************************************************************)
EXTENDS Integers, Sequences, FiniteSets, SequencesExt, TLC, Json, IOUtils

B == INSTANCE BitStruct WITH Shape <- [k |-> "leaf", w |-> 1], Names <- {}, objs <- <<>>

CONSTANTS MaxNodes, MaxFields, Widths, ListNs, ExhBits

---------------------------------------------------------------------------
\* The family, built bottom-up (tables indexed by node count; zero-arity definitions are
\* evaluated once by TLC)

KS == 0 .. MaxNodes
Tab(F) == [k \in KS |-> F[k]]
At(F, k) == IF k \in KS THEN F[k] ELSE {}

\* field types over element table E:  element | 1-dim list | 2-dim list
FiOf(E) == [k \in KS |->
               At(E, k)
               \cup {B!List(n, e) : n \in ListNs, e \in At(E, k - 1)}
               \cup {B!List(n, B!List(m, e)) : n \in ListNs, m \in ListNs, e \in At(E, k - 2)}]

S1(t1)         == B!Struct(<<B!Fld("a", t1)>>)
S2(t1, t2)     == B!Struct(<<B!Fld("a", t1), B!Fld("b", t2)>>)
S3(t1, t2, t3) == B!Struct(<<B!Fld("a", t1), B!Fld("b", t2), B!Fld("c", t3)>>)

\* structs over field table F
StOf(F) == [k \in KS |->
    IF k < 2 THEN {} ELSE
    LET r == k - 1 IN
        {S1(t1) : t1 \in At(F, r)}
        \cup (IF MaxFields < 2 THEN {} ELSE
              UNION {{S2(t1, t2) : t1 \in At(F, a), t2 \in At(F, r - a)} : a \in 1 .. r - 1})
        \cup (IF MaxFields < 3 THEN {} ELSE
              UNION {UNION {{S3(t1, t2, t3) : t1 \in At(F, a), t2 \in At(F, b), t3 \in At(F, r - a - b)}
                            : b \in 1 .. r - a - 1} : a \in 1 .. r - 2})]

Leafs == {B!Leaf(w) : w \in Widths}
E0  == [k \in KS |-> IF k = 1 THEN Leafs ELSE {}]
St1 == StOf(FiOf(E0))                                     \* innermost structs (no struct inside)
E1  == [k \in KS |-> E0[k] \cup St1[k]]
St2 == StOf(FiOf(E1))
E2  == [k \in KS |-> E0[k] \cup St2[k]]
St3 == StOf(FiOf(E2))                                     \* depth <= 3

Family == UNION {St3[k] : k \in KS}

FamSeq == SetToSeq(Family)

---------------------------------------------------------------------------
\* The aliasing script

Nm == {"x", "y", "z"}

Script(T) ==
    LET L == B!Layout(T)
        n == Len(L)
        tg(d, kd, i) == [op |-> "toggle", d |-> d, path |-> L[i].path, kind |-> kd]
        all(d, kd)   == [i \in 1 .. n |-> tg(d, kd, i)]
        alt(d)       == [i \in 1 .. n |-> tg(d, IF i % 2 = 0 THEN "inplace" ELSE "rebind", i)]
        both(d1, k1, d2, k2) == B!Flat([i \in 1 .. n |-> <<tg(d1, k1, i), tg(d2, k2, i)>>])
        cb == B!CodedBits(T)
    IN  B!Flat(<<
          \* three objects with distinguishable values
          << [op |-> "frombits", d |-> "x", b |-> cb],
             [op |-> "frombits", d |-> "y", b |-> B!Compl(cb)],
             [op |-> "frombits", d |-> "z", b |-> [i \in 1 .. B!NBits(T) |-> 0]],
          \* A: blocking assignment copies, later mutation of either side stays private
             [op |-> "assign", d |-> "z", s |-> "x"] >>,
          all("x", "inplace"), all("z", "rebind"),
          \* B: non-blocking assignment: invisible until the flip, source may change meanwhile
          << [op |-> "nbassign", d |-> "y", s |-> "x"] >>,
          alt("x"),
          << [op |-> "flip", d |-> "y"] >>,
          all("y", "inplace"),
          << [op |-> "flip", d |-> "y"] >>,          \* the pending value is still the copied one
          \* C: clone
          << [op |-> "clone", d |-> "z", s |-> "y"] >>,
          both("y", "inplace", "z", "rebind"),     \* shared leaf object / shared list object
          \* D: deepcopy
          << [op |-> "deepcopy", d |-> "x", s |-> "z"] >>,
          both("z", "inplace", "x", "rebind"),
          \* E: assignment from plain Bits goes through from_bits
          << [op |-> "assignbits", d |-> "x", b |-> B!AltBits(B!NBits(T), 0)],
             [op |-> "nbassignbits", d |-> "z", b |-> cb],
             [op |-> "assign", d |-> "y", s |-> "x"],
             [op |-> "flip", d |-> "z"],
             [op |-> "nbassign", d |-> "x", s |-> "z"],
             [op |-> "assignbits", d |-> "z", b |-> B!AltBits(B!NBits(T), 1)],
             [op |-> "flip", d |-> "x"] >>,
          \* F: default construction T() makes fresh field objects every time (no shared defaults)
          << [op |-> "default", d |-> "x"],
             [op |-> "default", d |-> "y"] >>,
          all("x", "inplace"),
          << [op |-> "default", d |-> "z"],
             [op |-> "assign", d |-> "x", s |-> "y"] >>
        >>)

\* toggle -> mutate with the complement of the current leaf value
Resolve(T, st, a) ==
    IF a.op # "toggle" THEN a
    ELSE [op |-> "mutate", d |-> a.d, path |-> a.path, kind |-> a.kind,
          x |-> B!Compl(B!Get(T, st[a.d].cur, B!IpOf(T, a.path)))]

InitSt(T) == [n \in Nm |-> B!Obj(B!Zero(T))]

SampleSeq(T) ==
    LET n == B!NBits(T)
    IN  <<[i \in 1 .. n |-> 0], [i \in 1 .. n |-> 1], B!AltBits(n, 0), B!CodedBits(T), B!Compl(B!CodedBits(T))>>
        \o [i \in 1 .. Len(B!Layout(T)) |-> B!WalkBits(T, i)]

Case(T, lg) ==
    LET L == B!Layout(T)
        S == SampleSeq(T)
    IN  [shape  |-> T,
         nbits  |-> B!NBits(T),
         layout |-> [i \in 1 .. Len(L) |-> [path |-> L[i].path, lo |-> L[i].lo, hi |-> L[i].hi]],
         vals   |-> [i \in 1 .. Len(S) |-> [b |-> S[i], v |-> B!Unpack(T, S[i])]],
         script |-> lg]

---------------------------------------------------------------------------
\* The state machine TLC explores: one linear behaviour per shape
\*   new --Start--> run (pc = 0) --StepAct--> ... --StepAct--> run (todo empty) --Emit--> done
\* todo: the part of Script(shape) not yet executed; log[i] = [a |-> resolved action i,
\* bits |-> packed value of a.d after it]

VARIABLES sid, shape, phase, pc, st, todo, log
mvars == <<sid, shape, phase, pc, st, todo, log>>

Init == /\ sid \in 1 .. Len(FamSeq) /\ shape = FamSeq[sid]
        /\ phase = "new" /\ pc = 0 /\ st = <<>> /\ todo = <<>> /\ log = <<>>

Start ==
    /\ phase = "new"
    /\ phase' = "run" /\ st' = InitSt(shape) /\ todo' = Script(shape)
    /\ UNCHANGED <<sid, shape, pc, log>>

StepAct ==
    /\ phase = "run" /\ todo # <<>>
    /\ LET a   == Resolve(shape, st, Head(todo))
           st2 == B!Step(shape, st, a)
       IN  /\ B!Enabled(shape, st, a)
           /\ st' = st2
           /\ log' = Append(log, [a |-> a, bits |-> B!Pack(shape, st2[a.d].cur)])
    /\ pc' = pc + 1 /\ todo' = Tail(todo) /\ UNCHANGED <<sid, shape, phase>>

Emit ==
    /\ phase = "run" /\ todo = <<>>
    /\ IOEnv.VERIF_OUT = "" \/
          JsonSerialize(IOEnv.VERIF_OUT \o "/c" \o ToString(sid) \o ".json", <<Case(shape, log)>>)
    /\ phase' = "done" /\ UNCHANGED <<sid, shape, pc, st, todo, log>>

Next == Start \/ StepAct \/ Emit
Spec == Init /\ [][Next]_mvars

\* checked once per shape (in the first state of its run)
ShapeInv == (phase = "run" /\ pc = 0) => B!ShapeOK(shape, ExhBits)
\* every script step is enabled: no behaviour stops early, every behaviour ends in Emit
NotStuck == (phase = "run" /\ todo # <<>>) => B!Enabled(shape, st, Resolve(shape, st, Head(todo)))
Complete == phase = "done" => pc = Len(log) /\ pc = 9 * Len(B!Layout(shape)) + 20
\* no aliasing: only the destination object of the step changes; <<= leaves cur alone; the new
\* value of the destination is well formed and determined by its packed bits
Frame == [][(phase = "run" /\ pc' = pc + 1) =>
            LET a == Resolve(shape, st, Head(todo))
            IN  /\ \A n \in Nm \ {a.d} : st'[n] = st[n]
                /\ a.op \in {"nbassign", "nbassignbits"} => st'[a.d].cur = st[a.d].cur
                /\ B!IsValue(shape, st'[a.d].cur)
                /\ B!Unpack(shape, log'[pc'].bits) = st'[a.d].cur]_mvars
=============================================================================
