------------------------------ MODULE BitStruct ------------------------------
(***************************************************************************)
(* Bitstruct types of pymtl3 (pymtl3/datatypes/bitstructs.py), property    *)
(* C06: packing is a lossless, order-preserving bijection; ==, hash,       *)
(* clone, deepcopy agree with the packed value; @= / <<= copy field by     *)
(* field without aliasing.                                                 *)
(*                                                                         *)
(* ---------------- INTERFACE (reused by other modules: C12, C16) -------- *)
(*                                                                         *)
(* Shapes (JSON objects of the same form deserialize to the same values): *)
(*   Leaf(w)      = [k |-> "leaf",   w  |-> w]            a BitsW field    *)
(*   Struct(fs)   = [k |-> "struct", fs |-> fs]           fs : Seq of      *)
(*                     [n |-> field name (STRING), t |-> shape], in        *)
(*                     declaration order, non-empty                        *)
(*   List(n, t)   = [k |-> "list",   n  |-> n, t |-> t]   n >= 1 elements  *)
(*                     of shape t; a multi-dimensional list field          *)
(*                     [[T,T],[T,T]] is List(2, List(2, T))                *)
(*                                                                         *)
(* Bit vectors: sequences over {0,1}, LSB FIRST (b[1] is bit 0); never     *)
(* integers (TLC integers are 32 bit, bitstructs go up to 1023 bits).      *)
(*                                                                         *)
(* Values of a shape (positional, no names):                               *)
(*   Leaf(w)    : bit vector of length w                                   *)
(*   Struct(fs) : sequence of Len(fs) field values, declaration order      *)
(*   List(n,t)  : sequence of n element values, v[i+1] is element i        *)
(*                                                                         *)
(*   NBits(T)       total width = sum of the leaf widths                   *)
(*   Layout(T)      sequence of [path, ip, lo, hi], one entry per leaf,    *)
(*                  MOST SIGNIFICANT LEAF FIRST (the argument order of the *)
(*                  generated `concat(...)`); the leaf occupies bits       *)
(*                  lo .. hi-1 of to_bits() (hi exclusive, as in the slice *)
(*                  `bits[lo:hi]`).  path : Seq(STRING) of field names and *)
(*                  decimal list indices (<<"y","1","0","a">> is           *)
(*                  obj.y[1][0].a);  ip : the same path as positions in    *)
(*                  the positional value (field number / index+1).         *)
(*                  The FIRST declared field is the MOST significant,      *)
(*                  list element 0 is the LEAST significant in its field.  *)
(*   Pack(T, v)     to_bits: bit vector of length NBits(T)                 *)
(*   Unpack(T, b)   from_bits: value of shape T                            *)
(*   Get(T,v,ip) / SetAt(T,v,ip,x) / IpOf(T,path)   navigation             *)
(*   Zero(T), Ones(T), WellFormed(T), IsValue(T, v)                        *)
(*                                                                         *)
(* Object semantics (Step / Enabled below): an object is                   *)
(* [cur, pend, nxt]; every object owns its value -- nothing one object     *)
(* does is visible in another one (the no-aliasing rule of C06).           *)
(*                                                                         *)
(* Recursion is structural over shapes only (depth = nesting depth of the  *)
(* type, small); everything that ranges over bits or list elements is a    *)
(* function constructor or a FoldLeft.                                     *)
(***************************************************************************)
EXTENDS Naturals, Sequences, FiniteSets, SequencesExt, TLC

Leaf(w)    == [k |-> "leaf", w |-> w]
Struct(fs) == [k |-> "struct", fs |-> fs]
List(n, t) == [k |-> "list", n |-> n, t |-> t]
Fld(n, t)  == [n |-> n, t |-> t]

SumSeq(s)  == FoldLeft(LAMBDA a, b : a + b, 0, s)
Flat(ss)   == FoldLeft(LAMBDA a, b : a \o b, <<>>, ss)

---------------------------------------------------------------------------
\* Shapes

RECURSIVE WellFormed(_)
WellFormed(T) ==
    CASE T.k = "leaf"   -> T.w \in 1 .. 1023
      [] T.k = "struct" -> /\ Len(T.fs) >= 1
                           /\ \A i \in 1 .. Len(T.fs) : WellFormed(T.fs[i].t)
                           /\ \A i, j \in 1 .. Len(T.fs) : i # j => T.fs[i].n # T.fs[j].n
      [] T.k = "list"   -> T.n >= 1 /\ WellFormed(T.t)
      [] OTHER          -> FALSE

RECURSIVE NBits(_)
NBits(T) ==
    CASE T.k = "leaf"   -> T.w
      [] T.k = "struct" -> SumSeq([i \in 1 .. Len(T.fs) |-> NBits(T.fs[i].t)])
      [] T.k = "list"   -> T.n * NBits(T.t)

NKids(T)    == IF T.k = "struct" THEN Len(T.fs) ELSE IF T.k = "list" THEN T.n ELSE 0
Kid(T, i)   == IF T.k = "struct" THEN T.fs[i].t ELSE T.t
\* name of the i-th child position as it appears in a path
KidName(T, i) == IF T.k = "struct" THEN T.fs[i].n ELSE ToString(i - 1)

\* offset (from bit 0 of T's own packed value) of child position i
KidLo(T, i) ==
    IF T.k = "struct"
    THEN SumSeq([j \in 1 .. (Len(T.fs) - i) |-> NBits(T.fs[i + j].t)])   \* later fields are below
    ELSE (i - 1) * NBits(T.t)                                           \* element 0 at the bottom

---------------------------------------------------------------------------
\* Layout: one entry per leaf, most significant first

RECURSIVE Lay(_, _, _, _)
Lay(T, base, path, ip) ==
    CASE T.k = "leaf"   -> << [path |-> path, ip |-> ip, lo |-> base, hi |-> base + T.w] >>
      [] T.k = "struct" ->
            Flat([i \in 1 .. Len(T.fs) |->
                    Lay(T.fs[i].t, base + KidLo(T, i), Append(path, T.fs[i].n), Append(ip, i))])
      [] T.k = "list"   ->
            Flat([j \in 1 .. T.n |->
                    LET i == T.n + 1 - j      \* highest index first
                    IN  Lay(T.t, base + KidLo(T, i), Append(path, ToString(i - 1)), Append(ip, i))])

Layout(T) == Lay(T, 0, <<>>, <<>>)

---------------------------------------------------------------------------
\* Values

RECURSIVE Const(_, _)
Const(T, c) ==
    CASE T.k = "leaf"   -> [i \in 1 .. T.w |-> c]
      [] T.k = "struct" -> [i \in 1 .. Len(T.fs) |-> Const(T.fs[i].t, c)]
      [] T.k = "list"   -> [i \in 1 .. T.n |-> Const(T.t, c)]
Zero(T) == Const(T, 0)
Ones(T) == Const(T, 1)

IsBits(b, w) == /\ DOMAIN b = 1 .. w
                /\ \A i \in 1 .. w : b[i] \in {0, 1}

RECURSIVE IsValue(_, _)
IsValue(T, v) ==
    CASE T.k = "leaf"   -> IsBits(v, T.w)
      [] T.k = "struct" -> DOMAIN v = 1 .. Len(T.fs) /\ \A i \in 1 .. Len(T.fs) : IsValue(T.fs[i].t, v[i])
      [] T.k = "list"   -> DOMAIN v = 1 .. T.n /\ \A i \in 1 .. T.n : IsValue(T.t, v[i])

RECURSIVE Get(_, _, _)
Get(T, v, ip) == IF ip = <<>> THEN v ELSE Get(Kid(T, Head(ip)), v[Head(ip)], Tail(ip))

RECURSIVE SetAt(_, _, _, _)
SetAt(T, v, ip, x) ==
    IF ip = <<>> THEN x
    ELSE [v EXCEPT ![Head(ip)] = SetAt(Kid(T, Head(ip)), v[Head(ip)], Tail(ip), x)]

RECURSIVE ShapeAt(_, _)
ShapeAt(T, ip) == IF ip = <<>> THEN T ELSE ShapeAt(Kid(T, Head(ip)), Tail(ip))

\* path of names -> path of positions; <<0>> (not a position path) when the name path does not exist
RECURSIVE IpOf(_, _)
IpOf(T, path) ==
    IF path = <<>> THEN <<>>
    ELSE LET C == {i \in 1 .. NKids(T) : KidName(T, i) = Head(path)}
         IN  IF C = {} THEN <<0>>
             ELSE LET i    == CHOOSE c \in C : TRUE
                      rest == IpOf(Kid(T, i), Tail(path))
                  IN  IF rest = <<0>> THEN <<0>> ELSE <<i>> \o rest

---------------------------------------------------------------------------
\* Pack / Unpack (structural definition)

RECURSIVE Pack(_, _)
Pack(T, v) ==
    CASE T.k = "leaf"   -> v
      [] T.k = "struct" -> LET n == Len(T.fs)            \* LSB first: the LAST field comes first
                           IN  Flat([j \in 1 .. n |-> Pack(T.fs[n + 1 - j].t, v[n + 1 - j])])
      [] T.k = "list"   -> Flat([i \in 1 .. T.n |-> Pack(T.t, v[i])])   \* element 0 first = lowest

Slice(b, lo, hi) == SubSeq(b, lo + 1, hi)     \* bits lo .. hi-1

RECURSIVE Unpack(_, _)
Unpack(T, b) ==
    CASE T.k = "leaf"   -> b
      [] T.k = "struct" -> [i \in 1 .. Len(T.fs) |->
                               Unpack(T.fs[i].t, Slice(b, KidLo(T, i), KidLo(T, i) + NBits(T.fs[i].t)))]
      [] T.k = "list"   -> LET w == NBits(T.t)
                           IN  [i \in 1 .. T.n |-> Unpack(T.t, Slice(b, (i - 1) * w, i * w))]

\* The same function defined through the layout table (cross-check of the two definitions)
PackL(T, v) ==
    LET L == Layout(T)
    IN  [kk \in 1 .. NBits(T) |->
            LET e == CHOOSE x \in {L[i] : i \in 1 .. Len(L)} : x.lo < kk /\ kk <= x.hi
            IN  Get(T, v, e.ip)[kk - e.lo]]

---------------------------------------------------------------------------
\* Properties of a shape (the invariants TLC checks for every shape of the bounded family)

LayoutPartition(T) ==
    LET L == Layout(T) n == Len(L)
    IN  /\ n >= 1
        /\ L[1].hi = NBits(T)                                  \* first leaf is on top
        /\ L[n].lo = 0
        /\ \A i \in 1 .. n : /\ L[i].lo < L[i].hi
                             /\ ShapeAt(T, L[i].ip).k = "leaf"
                             /\ L[i].hi - L[i].lo = ShapeAt(T, L[i].ip).w
                             /\ IpOf(T, L[i].path) = L[i].ip
        /\ \A i \in 1 .. n - 1 : L[i].lo = L[i + 1].hi         \* contiguous, descending
        \* redundant set formulation: the ranges partition 0 .. NBits-1
        /\ UNION {L[i].lo .. (L[i].hi - 1) : i \in 1 .. n} = 0 .. (NBits(T) - 1)
        /\ \A i, j \in 1 .. n : i # j =>
              (L[i].lo .. (L[i].hi - 1)) \cap (L[j].lo .. (L[j].hi - 1)) = {}

IsPrefix2(p, q) == Len(p) <= Len(q) /\ SubSeq(q, 1, Len(p)) = p
Under(T, ip) == LET L == Layout(T) IN {L[i] : i \in {j \in 1 .. Len(L) : IsPrefix2(ip, L[j].ip)}}
MinLo(S)  == CHOOSE x \in {e.lo : e \in S} : \A y \in {e.lo : e \in S} : x <= y
MaxHi(S)  == CHOOSE x \in {e.hi : e \in S} : \A y \in {e.hi : e \in S} : x >= y

\* every node of the shape: an earlier field sits immediately ABOVE the next one;
\* list element i sits immediately BELOW element i+1
RECURSIVE OrderAt(_, _, _)
OrderAt(T, N, ip) ==
    /\ N.k = "struct" => \A i \in 1 .. Len(N.fs) - 1 :
                             MinLo(Under(T, Append(ip, i))) = MaxHi(Under(T, Append(ip, i + 1)))
    /\ N.k = "list"   => \A i \in 1 .. N.n - 1 :
                             MaxHi(Under(T, Append(ip, i))) = MinLo(Under(T, Append(ip, i + 1)))
    /\ \A i \in 1 .. NKids(N) : OrderAt(T, Kid(N, i), Append(ip, i))
FieldOrder(T) == OrderAt(T, T, <<>>)

AllBits(n) == [1 .. n -> {0, 1}]

\* a handful of distinguishing bit vectors of width n / for shape T
AltBits(n, ph)  == [i \in 1 .. n |-> (i + ph) % 2]
NatBits(x, w)   == [j \in 1 .. w |-> IF j > 24 THEN 0 ELSE (x \div (2 ^ (j - 1))) % 2]
\* leaf number i (MSB first) holds the number i (mod 2^w): adjacent and equal-width leaves differ
CodedBits(T) ==
    LET L == Layout(T)
    IN  [kk \in 1 .. NBits(T) |->
            LET i == CHOOSE j \in 1 .. Len(L) : L[j].lo < kk /\ kk <= L[j].hi
            IN  NatBits(i, L[i].hi - L[i].lo)[kk - L[i].lo]]
WalkBits(T, i) == LET e == Layout(T)[i] IN [kk \in 1 .. NBits(T) |-> IF e.lo < kk /\ kk <= e.hi THEN 1 ELSE 0]
Compl(b) == [i \in DOMAIN b |-> 1 - b[i]]

SampleBits(T) ==
    LET n == NBits(T)
    IN  {[i \in 1 .. n |-> 0], [i \in 1 .. n |-> 1], AltBits(n, 0), AltBits(n, 1),
         CodedBits(T), Compl(CodedBits(T))}
        \cup {WalkBits(T, i) : i \in 1 .. Len(Layout(T))}

TestBits(T, exh) == IF NBits(T) <= exh THEN AllBits(NBits(T)) ELSE SampleBits(T)

RoundTripB(T, exh) == \A b \in TestBits(T, exh) :
                          /\ IsValue(T, Unpack(T, b))
                          /\ Pack(T, Unpack(T, b)) = b
RoundTripV(T, exh) == \A b \in TestBits(T, exh) :
                          LET v == Unpack(T, b) IN Unpack(T, Pack(T, v)) = v
\* Unpack is onto the values (every value is reached from its own packed bits) and the layout
\* table describes Pack: leaf e of v appears at bits e.lo .. e.hi-1
PackIsLayout(T, exh) == \A b \in TestBits(T, exh) :
                          LET v == Unpack(T, b) L == Layout(T)
                          IN  /\ PackL(T, v) = Pack(T, v)
                              /\ \A i \in 1 .. Len(L) : Slice(b, L[i].lo, L[i].hi) = Get(T, v, L[i].ip)
WidthIsSum(T) == LET L == Layout(T) IN NBits(T) = SumSeq([i \in 1 .. Len(L) |-> L[i].hi - L[i].lo])

ShapeOK(T, exh) == /\ WellFormed(T) /\ WidthIsSum(T) /\ LayoutPartition(T) /\ FieldOrder(T)
                   /\ RoundTripB(T, exh) /\ RoundTripV(T, exh) /\ PackIsLayout(T, exh)

---------------------------------------------------------------------------
\* Objects.  st : [names -> [cur, pend, nxt]].   cur: the visible value; nxt: the value that
\* _flip() makes visible; pend: every leaf has a pending value (set by <<=).  A freshly
\* created object (from_bits, clone, deepcopy) and an object one of whose leaves has been
\* REPLACED by a new Bits object have no complete pending value: Flip is not enabled for them
\* (real code: AttributeError `_next`; the statement says nothing about it -> input avoided).
\*
\* Actions (records; JSON objects of the same form):
\*   [op |-> "frombits",  d, b]        d := T.from_bits(b)           (new object)
\*   [op |-> "default",   d]           d := T()                      (new object, every leaf 0; default
\*                                     construction builds fresh leaf / list / nested objects each time)
\*   [op |-> "assign",    d, s]        d @= s
\*   [op |-> "assignbits",d, b]        d @= BitsN(b)                 (goes through from_bits)
\*   [op |-> "nbassign",  d, s]        d <<= s
\*   [op |-> "nbassignbits", d, b]     d <<= BitsN(b)
\*   [op |-> "flip",      d]           d._flip()
\*   [op |-> "clone",     d, s]        d := s.clone()                (new object)
\*   [op |-> "deepcopy",  d, s]        d := copy.deepcopy(s)         (new object)
\*   [op |-> "mutate",    d, path, kind, x]   leaf `path` of d becomes x;
\*                        kind "inplace": d.path @= x     kind "rebind": d.path = BitsW(x)

Obj(v)       == [cur |-> v, pend |-> FALSE, nxt |-> v]
WithCur(o, v) == IF o.pend THEN [o EXCEPT !.cur = v] ELSE Obj(v)   \* nxt is meaningless unless pend
WithNxt(o, v) == [o EXCEPT !.pend = TRUE, !.nxt = v]

OkLeafPath(T, path) == LET ip == IpOf(T, path) IN ip # <<0>> /\ ShapeAt(T, ip).k = "leaf"

Enabled(T, st, a) ==
    CASE a.op \in {"frombits", "assignbits", "nbassignbits"} -> IsBits(a.b, NBits(T))
      [] a.op = "default" -> TRUE
      [] a.op \in {"assign", "nbassign", "clone", "deepcopy"} -> a.s \in DOMAIN st /\ a.d \in DOMAIN st
      [] a.op = "flip"   -> a.d \in DOMAIN st /\ st[a.d].pend
      [] a.op = "mutate" -> /\ a.d \in DOMAIN st /\ OkLeafPath(T, a.path)
                            /\ a.kind \in {"inplace", "rebind"}
                            /\ IsBits(a.x, ShapeAt(T, IpOf(T, a.path)).w)
      [] OTHER -> FALSE

Step(T, st, a) ==
    CASE a.op = "frombits"     -> [st EXCEPT ![a.d] = Obj(Unpack(T, a.b))]
      [] a.op = "default"      -> [st EXCEPT ![a.d] = Obj(Zero(T))]
      [] a.op = "assign"       -> [st EXCEPT ![a.d] = WithCur(@, st[a.s].cur)]
      [] a.op = "assignbits"   -> [st EXCEPT ![a.d] = WithCur(@, Unpack(T, a.b))]
      [] a.op = "nbassign"     -> [st EXCEPT ![a.d] = WithNxt(@, st[a.s].cur)]
      [] a.op = "nbassignbits" -> [st EXCEPT ![a.d] = WithNxt(@, Unpack(T, a.b))]
      [] a.op = "flip"         -> [st EXCEPT ![a.d] = WithCur(@, @.nxt)]
      [] a.op = "clone"        -> [st EXCEPT ![a.d] = Obj(st[a.s].cur)]
      [] a.op = "deepcopy"     -> [st EXCEPT ![a.d] = Obj(st[a.s].cur)]
      [] a.op = "mutate"       ->
            LET c == SetAt(T, st[a.d].cur, IpOf(T, a.path), a.x)
            IN  [st EXCEPT ![a.d] = IF a.kind = "inplace" THEN WithCur(@, c)
                                    ELSE [cur |-> c, pend |-> FALSE, nxt |-> c]]

\* equality and hashing agree with the packed value
EqObj(T, st, a, b) == Pack(T, st[a].cur) = Pack(T, st[b].cur)

---------------------------------------------------------------------------
\* State machine over a fixed shape (exhaustive exploration for tiny shapes; every transition
\* of its state graph is replayed on real objects by the harness)

CONSTANTS Shape,      \* the type
          Names       \* object names, e.g. {"x", "y"}

VARIABLE objs
vars == <<objs>>

LeafPaths == {Layout(Shape)[i].path : i \in 1 .. Len(Layout(Shape))}
LeafW(p)  == ShapeAt(Shape, IpOf(Shape, p)).w

Actions ==
    {a \in {[op |-> o, d |-> d, s |-> s] : o \in {"assign", "nbassign", "clone", "deepcopy"},
                                            d \in Names, s \in Names} : a.d # a.s}
    \cup {[op |-> "flip", d |-> d] : d \in Names}
    \cup {[op |-> "default", d |-> d] : d \in Names}
    \cup {[op |-> o, d |-> d, b |-> b] : o \in {"assignbits", "nbassignbits", "frombits"}, d \in Names,
                                           b \in {AltBits(NBits(Shape), 0), [i \in 1 .. NBits(Shape) |-> 1]}}
    \cup UNION {{[op |-> "mutate", d |-> d, path |-> p, kind |-> kd, x |-> x] :
                     d \in Names, kd \in {"inplace", "rebind"}, x \in AllBits(LeafW(p))} : p \in LeafPaths}

Init == objs = [n \in Names |-> Obj(Zero(Shape))]
Do(a) == Enabled(Shape, objs, a) /\ objs' = Step(Shape, objs, a)
Next == \E a \in Actions : Do(a)
Spec == Init /\ [][Next]_vars

TypeOK == \A n \in Names : IsValue(Shape, objs[n].cur) /\ IsValue(Shape, objs[n].nxt) /\ objs[n].pend \in BOOLEAN
\* the packed value determines the object value and vice versa in every reachable state
PackedAgrees == \A n \in Names : Unpack(Shape, Pack(Shape, objs[n].cur)) = objs[n].cur
\* no aliasing: every action has one destination object; nothing else changes
NoAliasing == [][Cardinality({n \in Names : objs'[n] # objs[n]}) <= 1]_vars
\* <<= is invisible until the flip
NbInvisible == [][\A d \in Names, s \in Names :
                     objs' = Step(Shape, objs, [op |-> "nbassign", d |-> d, s |-> s]) =>
                         objs'[d].cur = objs[d].cur /\ objs'[d].nxt = objs[s].cur]_vars
=============================================================================
