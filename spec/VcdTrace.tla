----------------------------- MODULE VcdTrace -----------------------------
(***************************************************************************)
(* Trace validation for C16.  One trace = one simulation run of a real     *)
(* design under a tracing pass group:                                      *)
(*                                                                         *)
(*   ev    the events of the .vcd file as read by harness/vcdparse.py      *)
(*         (scope/upscope/var/enddefs/change/time/eof; "bad" = a token the *)
(*         parser could not read)                                          *)
(*   sigs  every top-level signal of every component: full name, expected  *)
(*         scope path and $var name (name mangling rule), width, clk flag  *)
(*         (member of the net of top.clk), tw flag (expected in the text   *)
(*         wave: field name is neither clk nor reset, or it is s.reset)    *)
(*   snap  snap[c+1][i] = the leaves (struct fields in declaration order,  *)
(*         msb-first bit strings) of signal i read through the public API  *)
(*         after sim_eval_combinational() and before the sim_tick() that   *)
(*         ends cycle c; <<>> for a cycle that could not be observed       *)
(*         (inside top.sim_reset())                                        *)
(*   tw    tw[i] = textwave_dict[name] ("0b..." strings), <<>> if absent   *)
(*                                                                         *)
(* The reader of Vcd.tla consumes the events; at the stamp of every        *)
(* simulated cycle the reconstructed value of every signal is compared     *)
(* with the snapshot and with the text wave.  Every action is total: the   *)
(* first failing clause goes to `err` and Finish prints the verdict.       *)
(***************************************************************************)
EXTENDS Naturals, Integers, Sequences, FiniteSets, TLC, Json, IOUtils

V == INSTANCE Vcd WITH Sigs <- {}, Width <- <<>>, SymOf <- <<>>, Dom <- <<>>, ClkSym <- "",
                       NCycles <- 0, Period <- 100, Half <- 50, Fault <- "none",
                       phase <- "", cyc <- 0, last <- <<>>, snap <- <<>>, file <- <<>>,
                       pos <- 0, rd <- <<>>, rec <- <<>>, verr <- ""
   \* only the pure part (reading rule, clock rule, packing) is used here

Input  == JsonDeserialize(IOEnv.VERIF_INPUT)
Traces == Input.traces

VARIABLES tid, l, err, fin, rd, symof
tvars == <<tid, l, err, fin, rd, symof>>

T    == Traces[tid]
E    == T.ev[l]
NS   == Len(T.sigs)
P    == T.period
H    == T.half

Init == /\ tid \in 1 .. Len(Traces)
        /\ l = 1 /\ err = "ok" /\ fin = FALSE
        /\ rd = V!R0 /\ symof = <<>>

Fail(c)  == err' = c /\ UNCHANGED <<tid, l, fin, rd, symof>>
Step(r2) == rd' = r2 /\ l' = l + 1 /\ UNCHANGED <<tid, err, fin, symof>>
Min(S)   == CHOOSE x \in S : \A y \in S : x <= y

\* ---- header
DeclOf(r, i) == {d \in r.decl : d.path = T.sigs[i].path /\ d.name = T.sigs[i].vname}
ClkIdx       == {i \in 1 .. NS : T.sigs[i].name = "s.clk"}

Header ==
    /\ E.k \in {"scope", "upscope", "var", "enddefs"}
    /\ (CASE E.k = "scope"   -> IF V!ScopeErr(rd, E) # "ok" THEN Fail(V!ScopeErr(rd, E)) ELSE Step(V!ScopeStep(rd, E))
          [] E.k = "upscope" -> IF V!UpErr(rd, E) # "ok" THEN Fail(V!UpErr(rd, E)) ELSE Step(V!UpStep(rd, E))
          [] E.k = "var"     -> IF V!VarErr(rd, E) # "ok" THEN Fail(V!VarErr(rd, E)) ELSE Step(V!VarStep(rd, E))
          [] E.k = "enddefs" ->
               LET r2      == V!EndDefsStep(rd, E)
                   missing == {i \in 1 .. NS : DeclOf(r2, i) = {}}
                   badw    == {i \in 1 .. NS : \E d \in DeclOf(r2, i) : d.w # T.sigs[i].w}
                   so      == [i \in 1 .. NS |-> (CHOOSE d \in DeclOf(r2, i) : TRUE).sym]
                   offclk  == {i \in 1 .. NS : T.sigs[i].clk /\ so[i] # so[Min(ClkIdx)]}
               IN  IF V!EndDefsErr(rd, E) # "ok" THEN Fail(V!EndDefsErr(rd, E))
                   ELSE IF ClkIdx = {} THEN Fail("bad-trace-no-clk-signal")
                   ELSE IF missing # {} THEN Fail("no-var-for-signal:" \o T.sigs[Min(missing)].name)
                   ELSE IF badw # {} THEN Fail("var-width-mismatch:" \o T.sigs[Min(badw)].name)
                   ELSE IF offclk # {} THEN Fail("clock-net-member-not-on-clock-symbol:" \o T.sigs[Min(offclk)].name)
                   ELSE /\ rd' = r2 /\ symof' = so /\ l' = l + 1 /\ UNCHANGED <<tid, err, fin>>)

\* ---- value changes: the reading rule
Change ==
    /\ E.k = "change"
    /\ IF V!ChangeErr(rd, E) # "ok" THEN Fail(V!ChangeErr(rd, E)) ELSE Step(V!ChangeStep(rd, E))

\* ---- sampling cycle c when time leaves its stamp
ClkSym == symof[Min(ClkIdx)]

SampleErr(c) ==
    LET observed == T.snap[c + 1] # <<>>
        data     == {i \in 1 .. NS : ~T.sigs[i].clk}
        want(i)  == V!Pack(T.snap[c + 1][i])
        got(i)   == rd.cur[symof[i]]
        badsnap  == {i \in data : observed /\ Len(want(i)) # T.sigs[i].w}
        badval   == {i \in data : observed /\ got(i) # want(i)}
        twshort  == {i \in data : T.sigs[i].tw /\ Len(T.tw[i]) < c + 1}
        badtw    == {i \in data : T.sigs[i].tw /\ observed /\ T.tw[i][c + 1] # "0b" \o want(i)}
        twvcd    == {i \in data : T.sigs[i].tw /\ ~observed /\ T.tw[i][c + 1] # "0b" \o got(i)}
    IN  IF badsnap # {} THEN "bad-trace-snapshot-width:" \o T.sigs[Min(badsnap)].name
        ELSE IF badval # {} THEN "value-mismatch:" \o T.sigs[Min(badval)].name
        ELSE IF twshort # {} THEN "textwave-too-short:" \o T.sigs[Min(twshort)].name
        ELSE IF badtw # {} THEN "textwave-mismatch:" \o T.sigs[Min(badtw)].name
        ELSE IF twvcd # {} THEN "textwave-differs-from-vcd:" \o T.sigs[Min(twvcd)].name
        ELSE "ok"

LeaveErr(t) ==
    IF rd.now = -1 THEN V!InitErr(rd)
    ELSE IF V!ClkErr(rd, ClkSym, t, P, H) # "ok" THEN V!ClkErr(rd, ClkSym, t, P, H)
    ELSE IF V!IsStamp(rd.now, P) /\ V!CycleOf(rd.now, P) < T.ncyc THEN SampleErr(V!CycleOf(rd.now, P))
    ELSE "ok"

Time ==
    /\ E.k = "time"
    /\ IF V!TimeErr(rd, E) # "ok" THEN Fail(V!TimeErr(rd, E))
       ELSE IF LeaveErr(E.t) # "ok" THEN Fail(LeaveErr(E.t))
       ELSE Step(V!TimeStep(rd, E))

Eof ==
    /\ E.k = "eof"
    /\ LET twlen == {i \in 1 .. NS : ~T.sigs[i].clk /\ T.sigs[i].tw /\ Len(T.tw[i]) # T.ncyc}
       IN  IF ~rd.defs THEN Fail("no-enddefinitions")
           ELSE IF rd.now # P * T.ncyc THEN Fail("file-does-not-end-at-the-stamp-of-cycle-N")
           ELSE IF LeaveErr(rd.now + 1) # "ok" THEN Fail(LeaveErr(rd.now + 1))
           ELSE IF twlen # {} THEN Fail("textwave-length:" \o T.sigs[Min(twlen)].name)
           ELSE Step(rd)

Other == /\ E.k \notin {"scope", "upscope", "var", "enddefs", "change", "time", "eof"}
         /\ Fail(IF E.k = "bad" THEN "malformed-vcd" ELSE "unknown-event")

Finish == /\ ~fin /\ (err # "ok" \/ l > Len(T.ev))
          /\ PrintT(<<"V", tid, err, l>>)
          /\ fin' = TRUE /\ UNCHANGED <<tid, l, err, rd, symof>>

Next == \/ /\ ~fin /\ err = "ok" /\ l <= Len(T.ev)
           /\ (Header \/ Change \/ Time \/ Eof \/ Other)
        \/ Finish

Spec == Init /\ [][Next]_tvars
=============================================================================
