------------------------------ MODULE Arbiter ------------------------------
(***************************************************************************)
(* Round-robin arbiter (pymtl3/stdlib/basic_rtl/arbiters.py), property C19. *)
(*                                                                         *)
(* State: the priority pointer `ptr` (the index of the set bit of the      *)
(* one-hot priority register; reset value 1 = index 0).  One action per    *)
(* simulated clock cycle: Cycle(R, en) -- the request set R is applied,    *)
(* the combinational grant is observed, then the clock edge moves the      *)
(* pointer.  `reqs`/`grants` hold the last cycle's observable ports;       *)
(* `wait[i]` is a history variable counting pointer-advancing (granting)   *)
(* cycles during which input i kept requesting without being granted.      *)
(*                                                                         *)
(* The pure operators take the number of requesters as a parameter so that *)
(* ArbiterTrace can validate traces of arbiters of different sizes in one  *)
(* TLC run.                                                                *)
(***************************************************************************)
EXTENDS Naturals, FiniteSets

CONSTANTS N,        \* number of requesters (>= 2)
          HasEn     \* TRUE: RoundRobinArbiterEn (priority advances only when en)

VARIABLES ptr, reqs, grants, wait
vars == <<ptr, reqs, grants, wait>>

---------------------------------------------------------------------------
\* Pure definitions (parameterised by n)

Inputs(n)        == 0 .. n - 1
Dist(n, p, i)    == (i + n - p) % n                 \* cyclic distance from the pointer
Winner(n, p, R)  == CHOOSE i \in R : \A j \in R : Dist(n, p, i) <= Dist(n, p, j)
Grant(n, p, R)   == IF R = {} THEN {} ELSE {Winner(n, p, R)}
Advance(hasEn, R, en) == R # {} /\ (hasEn => en)
NextPtr(n, hasEn, p, R, en) ==
    IF Advance(hasEn, R, en) THEN (Winner(n, p, R) + 1) % n ELSE p
NextWait(n, hasEn, p, w, R, en) ==
    [i \in Inputs(n) |->
        IF i \in R /\ i \notin Grant(n, p, R)
        THEN (IF Advance(hasEn, R, en) THEN w[i] + 1 ELSE w[i])
        ELSE 0]

---------------------------------------------------------------------------
\* State machine

Init == /\ ptr = 0 /\ reqs = {} /\ grants = {}
        /\ wait = [i \in Inputs(N) |-> 0]

Cycle(R, en) ==
    /\ reqs'   = R
    /\ grants' = Grant(N, ptr, R)
    /\ ptr'    = NextPtr(N, HasEn, ptr, R, en)
    /\ wait'   = NextWait(N, HasEn, ptr, wait, R, en)

\* a cycle with reset asserted: requests (and the enable) may be anything; the grant output is still the
\* combinational function of the current pointer, and the pointer is 0 afterwards whatever was granted
Reset(R, en) == /\ ptr' = 0 /\ reqs' = R /\ grants' = Grant(N, ptr, R)
                /\ wait' = [i \in Inputs(N) |-> 0]

Next == \/ \E R \in SUBSET Inputs(N), en \in (IF HasEn THEN BOOLEAN ELSE {TRUE}) : Cycle(R, en)
        \/ \E R \in SUBSET Inputs(N), en \in (IF HasEn THEN BOOLEAN ELSE {TRUE}) : Reset(R, en)

Spec == Init /\ [][Next]_vars

---------------------------------------------------------------------------
\* Properties (C19)

TypeOK        == ptr \in Inputs(N) /\ reqs \subseteq Inputs(N) /\ grants \subseteq Inputs(N)
OneHot0       == Cardinality(grants) <= 1
GrantsAreReqs == grants \subseteq reqs
GrantIffReq   == (grants = {}) <=> (reqs = {})
\* an input that keeps requesting is granted within N granting cycles
BoundedWait   == \A i \in Inputs(N) : wait[i] <= N - 1
\* priority rotates to the input after the last granted one
IsReset       == \E R \in SUBSET Inputs(N), en \in BOOLEAN : Reset(R, en)
Rotates       == [][IsReset \/ \A R \in SUBSET Inputs(N) :
                      (reqs' = R /\ R # {} /\ ptr' # ptr) =>
                          \E g \in grants' : ptr' = (g + 1) % N]_vars
\* without a grant (or with en low) priority is unchanged
Holds         == [][(grants' = {} /\ ptr' # 0) => ptr' = ptr]_vars
=============================================================================
