-------------------------- MODULE MethodOrderTrace --------------------------
(***************************************************************************)
(* Trace validation for the CL part of C02: executions recorded from the    *)
(* real simulator (DefaultPassGroup, SimpleSimPass, UnrollSim,              *)
(* HeuTopoUnrollSim, Mamba2020, forced schedules, OpenLoopCLPass) drive the *)
(* machine of MethodOrder.tla; every event is checked against the           *)
(* event-level meaning of the constraints (MethodOrder!EventAt).            *)
(*                                                                         *)
(* Input (IOEnv.VERIF_INPUT): [designs: Seq(Design), traces: Seq(Trace)]    *)
(* Trace := [d: design index, ol: BOOLEAN (open loop), ev: Seq(Event)]      *)
(* Event := [k, b, m (, cls)]                                               *)
(*   "schedok" | "schedraise" cls    the schedule pass accepted / refused   *)
(*   "bcyc" ... "ecyc"               closed loop: one sim_tick()            *)
(*   "bs" b | "be" b                 update block b was called / returned   *)
(*                                   (the block BODY: for a block wrapped   *)
(*                                   into a greenlet ticker the body as it  *)
(*                                   runs inside the greenlet; for a net    *)
(*                                   step the generated net block)          *)
(*   "inv" m                         actual method m was entered (by the    *)
(*                                   running block / test-bench call)       *)
(*   "xs" x | "xe" x                 open loop: the test bench calls the    *)
(*                                   top-level method of pseudo block x     *)
(*   "flip"                          open loop: the cycle ended             *)
(*   "raised" cls                    an exception escaped the simulator     *)
(* Every action is total: the first failing clause is stored in `err`.      *)
(***************************************************************************)
EXTENDS MethodOrder

Traces == Input.traces

VARIABLES tid, l, err, fin
tvars == <<tid, l, err, fin, d, mode, hist, cur, pc, sch, j, pend, ncall>>

T  == Traces[tid]
Ev == T.ev[l]
OL == T.ol

TInit == /\ tid \in 1 .. Len(Traces)
         /\ l = 1 /\ err = "ok" /\ fin = FALSE
         /\ d = Traces[tid].d /\ mode = "t-start" /\ hist = <<>> /\ cur = 0 /\ pc = 0
         /\ sch = <<>> /\ j = 0 /\ pend = 0 /\ ncall = 0

Fail(c) == err' = c /\ UNCHANGED <<tid, l, fin, d, mode, hist, cur, pc, sch, j, pend, ncall>>
Adv     == l' = l + 1 /\ UNCHANGED <<tid, err, fin, d, sch, j, pend, ncall>>

SchedOk == /\ Ev.k = "schedok"
           /\ IF mode # "t-start" THEN Fail("protocol")
              ELSE IF MustReject(d, OL) THEN Fail("scheduled-a-cyclic-design")
              ELSE IF Cyclic(d, OL)     THEN Fail("cyclic-design-scheduled-by-acyclic-only-pass")
              ELSE /\ mode' = (IF OL THEN "t-cyc" ELSE "t-idle") /\ Adv /\ UNCHANGED <<hist, cur, pc>>

\* closed-loop passes must refuse with UpblkCyclicError; OpenLoopCLPass refuses with whatever its
\* generated SCC wrapper trips over (the statement asks for "an error")
SchedRaise == /\ Ev.k = "schedraise"
              /\ IF mode # "t-start" THEN Fail("protocol")
                 ELSE IF ~Cyclic(d, OL) THEN Fail("refused-a-schedulable-design")
                 ELSE IF ~OL /\ Ev.cls # "UpblkCyclicError" THEN Fail("unexpected-exception")
                 ELSE /\ mode' = "t-refused" /\ Adv /\ UNCHANGED <<hist, cur, pc>>

BeginCyc == /\ Ev.k = "bcyc"
            /\ IF mode # "t-idle" \/ OL THEN Fail("protocol")
               ELSE /\ mode' = "t-cyc" /\ hist' = <<>> /\ Adv /\ UNCHANGED <<cur, pc>>

BlockStart == /\ Ev.k = "bs"
              /\ LET h == Append(hist, <<"s", Ev.b, 0>>)  n == Len(hist) + 1 IN
                 IF mode # "t-cyc"                      THEN Fail("block-outside-a-cycle")
                 ELSE IF Ev.b \notin RealBlocks(D)      THEN Fail("unknown-block")
                 ELSE IF cur # 0                        THEN Fail("protocol")
                 ELSE IF ~OnceAt(d, h, n)               THEN Fail("ran-twice")
                 ELSE IF ~ExplicitAt(d, h, n)           THEN Fail("explicit-order-violated")
                 ELSE IF ~SignalAt(d, h, n)             THEN Fail("reader-before-writer")
                 ELSE /\ hist' = h /\ cur' = Ev.b /\ pc' = 0 /\ Adv /\ UNCHANGED mode

Invoked == /\ Ev.k = "inv"
           /\ LET c == IF cur # 0 THEN cur ELSE pend      \* the caller: the running block, else the test bench's call
                  h == Append(hist, <<"i", c, Ev.m>>)  n == Len(hist) + 1 IN
              IF mode # "t-cyc"                         THEN Fail("method-outside-a-cycle")
              ELSE IF Ev.m \notin Meths(D)              THEN Fail("unknown-method")
              ELSE IF c = 0                             THEN Fail("method-outside-a-block")
              ELSE IF pc >= Len(D.blocks[c].calls) \/ D.blocks[c].calls[pc + 1] # Ev.m
                                                        THEN Fail("call-reached-wrong-method")
              ELSE IF ~MethodOrderAt(d, h, n)           THEN Fail("method-order-violated")
              ELSE IF ~BlockBeforeMethodAt(d, h, n)     THEN Fail("block-after-method")
              ELSE IF ~MethodBeforeBlockAt(d, h, n)     THEN Fail("method-after-block")
              ELSE /\ hist' = h /\ pc' = pc + 1 /\ Adv /\ UNCHANGED <<mode, cur>>

BlockEnd == /\ Ev.k = "be"
            /\ IF mode # "t-cyc" \/ cur # Ev.b \/ cur = 0   THEN Fail("protocol")
               ELSE IF pc # Len(D.blocks[cur].calls)       THEN Fail("call-missing")
               ELSE /\ hist' = Append(hist, <<"e", cur, 0>>) /\ cur' = 0 /\ pc' = 0 /\ Adv /\ UNCHANGED mode

\* open loop: one call of a top-level method by the test bench (blocks the pass runs first to reach
\* the method's slot are recorded before the method itself is entered, inside the bracket)
ExtStart == /\ Ev.k = "xs"
            /\ IF mode # "t-cyc" \/ ~OL \/ pend # 0 \/ cur # 0 THEN Fail("protocol")
               ELSE IF Ev.b \notin AllBlocks(D) \ RealBlocks(D) THEN Fail("unknown-block")
               ELSE /\ pend' = Ev.b /\ l' = l + 1 /\ UNCHANGED <<tid, err, fin, d, sch, j, ncall, mode, hist, cur, pc>>
ExtEnd   == /\ Ev.k = "xe"
            /\ IF mode # "t-cyc" \/ pend # Ev.b \/ cur # 0    THEN Fail("protocol")
               ELSE IF pc # Len(D.blocks[pend].calls)         THEN Fail("call-missing")
               ELSE /\ pend' = 0 /\ pc' = 0 /\ l' = l + 1
                    /\ UNCHANGED <<tid, err, fin, d, sch, j, ncall, mode, hist, cur>>

EndCyc == /\ Ev.k = "ecyc"
          /\ IF mode # "t-cyc" \/ cur # 0 \/ OL THEN Fail("protocol")
             ELSE IF ~Complete(d, hist)         THEN Fail("not-run")
             ELSE /\ mode' = "t-idle" /\ Adv /\ UNCHANGED <<hist, cur, pc>>

\* open loop: the flip-flop / register-flip phase runs when a call finds its slot behind
Flip == /\ Ev.k = "flip"
        /\ IF mode # "t-cyc" \/ cur # 0 \/ ~OL THEN Fail("protocol")
           ELSE IF ~Complete(d, hist)          THEN Fail("not-run")
           ELSE /\ hist' = <<>> /\ Adv /\ UNCHANGED <<mode, cur, pc>>

Raised == Ev.k = "raised" /\ Fail("raised-at-run-time")

Known == {"schedok", "schedraise", "bcyc", "bs", "inv", "be", "ecyc", "flip", "raised", "xs", "xe"}
Other == Ev.k \notin Known /\ Fail("unknown-event")

Finish == /\ ~fin /\ (err # "ok" \/ l > Len(T.ev))
          /\ PrintT(<<"V", tid, err, l>>)
          /\ fin' = TRUE /\ UNCHANGED <<tid, l, err, d, mode, hist, cur, pc, sch, j, pend, ncall>>

TNext == \/ /\ ~fin /\ err = "ok" /\ l <= Len(T.ev)
            /\ (SchedOk \/ SchedRaise \/ BeginCyc \/ BlockStart \/ Invoked \/ BlockEnd \/ EndCyc \/ Flip
                \/ ExtStart \/ ExtEnd
                \/ Raised \/ Other)
         \/ Finish

TSpec == TInit /\ [][TNext]_tvars
=============================================================================
