------------------------------ MODULE RegFile ------------------------------
(***************************************************************************)
(* pymtl3/stdlib/basic_rtl/register_files.py: RegisterFile and             *)
(* RegisterFileRst -- what the multi-entry queue datapaths store their     *)
(* messages in (property C17).                                             *)
(*                                                                         *)
(* State: regs, a function 0 .. NRegs-1 -> Vals.  ONE action per clock     *)
(* cycle, Cycle(ra, rd, wa, wd, we, rst): read addresses ra[1..RdPorts]    *)
(* and the data rd they return, write ports (wa[i], wd[i], we[i]) for i in *)
(* 1..WrPorts, rst = the reset input.                                      *)
(*   - reads are combinational: rdata[i] = regs[ra[i]], the contents       *)
(*     BEFORE the clock edge (a write of the same cycle is not forwarded); *)
(*   - all enabled writes commit at the edge.  Several ports writing the   *)
(*     same address in one cycle: the code loops `for i in range(wr_ports)`*)
(*     with non-blocking assignments, so the LAST enabled port wins        *)
(*     (modelled as the fold WriteLoop over the ports in index order; the  *)
(*     declarative form is the property LastPortWins);                     *)
(*   - ConstZero (const_zero=True): a write to address 0 is ignored;       *)
(*   - HasReset (RegisterFileRst): while rst is high every register takes  *)
(*     ResetValue at the edge and writes are ignored.  RegisterFile has no *)
(*     reset term: rst has no effect on it.                                *)
(* Register 0 of a const_zero file is never written by a port; it keeps    *)
(* the value it starts with: 0 for RegisterFile (signals start at 0), the  *)
(* reset value for RegisterFileRst (its reset loop does not skip           *)
(* register 0 -- modelled as the code does it; the value is 0 for the      *)
(* default reset_value=0).                                                 *)
(*                                                                         *)
(* The pure operators are parameterised so that RegFileTrace validates     *)
(* traces of files of many shapes in one TLC run.                          *)
(***************************************************************************)
EXTENDS Integers, Sequences, FiniteSets

CONSTANTS NRegs, RdPorts, WrPorts,   \* nregs, rd_ports, wr_ports
          Vals,                      \* data values written by the ports
          ConstZero,                 \* const_zero
          HasReset,                  \* the class has a reset term (RegisterFileRst)
          ResetValue                 \* reset_value

VARIABLES regs, out
vars == <<regs, out>>

---------------------------------------------------------------------------
\* pure operators: r = register contents (function 0..n-1 -> value)

Addrs(n) == 0 .. n - 1

\* the body of the write loop for port i
WriteOne(cz, r, a, d, e) == IF e /\ ~(cz /\ a = 0) THEN [r EXCEPT ![a] = d] ELSE r

\* for i in range( wr_ports ): ...   (ports in index order; at most a handful of ports)
RECURSIVE WriteLoop(_, _, _, _, _, _)
WriteLoop(cz, r, wa, wd, we, i) ==
    IF i > Len(wa) THEN r
    ELSE WriteLoop(cz, WriteOne(cz, r, wa[i], wd[i], we[i]), wa, wd, we, i + 1)

NextRegs(cz, hr, rv, r, wa, wd, we, rst) ==
    IF hr /\ rst THEN [a \in DOMAIN r |-> rv]
    ELSE WriteLoop(cz, r, wa, wd, we, 1)

ReadData(r, ra) == [i \in 1 .. Len(ra) |-> r[ra[i]]]

\* value register 0 of a const_zero file keeps for ever
Reg0Value(hr, rv) == IF hr THEN rv ELSE 0

---------------------------------------------------------------------------
\* State machine.  RegisterFileRst is observed after the reset sequence (every register holds
\* ResetValue); RegisterFile starts with all registers 0.

InitRegs == [a \in Addrs(NRegs) |-> IF HasReset THEN ResetValue ELSE 0]
NoOut    == [ra |-> <<>>, rdata |-> <<>>, wa |-> <<>>, wd |-> <<>>, we |-> <<>>, rst |-> FALSE,
             before |-> InitRegs]

Init == regs = InitRegs /\ out = NoOut

\* rd = the read data returned in this cycle; it is an argument (fixed by the first conjunct) so that the
\* dumped state graph carries it on the edge label
Cycle(ra, rd, wa, wd, we, rst) ==
    /\ rd = ReadData(regs, ra)
    /\ regs' = NextRegs(ConstZero, HasReset, ResetValue, regs, wa, wd, we, rst)
    /\ out'  = [ra |-> ra, rdata |-> rd, wa |-> wa, wd |-> wd, we |-> we, rst |-> rst, before |-> regs]

Tuples(S, n) == [1 .. n -> S]
AllVals == Vals \cup {0, ResetValue}
Next == \E ra \in Tuples(Addrs(NRegs), RdPorts), rd \in Tuples(AllVals, RdPorts),
           wa \in Tuples(Addrs(NRegs), WrPorts), wd \in Tuples(Vals, WrPorts), we \in Tuples(BOOLEAN, WrPorts),
           rst \in BOOLEAN :
            Cycle(ra, rd, wa, wd, we, rst)

Spec == Init /\ [][Next]_vars

\* The state graph is walked on the real classes: one node per register contents.  `out` (the ports and the
\* contents before the edge) is hidden from the explored state by this VIEW; what the properties say about a
\* cycle is therefore stated on TRANSITIONS (StepProps: TLC checks an action property on every transition,
\* also on those that lead to a state it has already seen).
View == regs

---------------------------------------------------------------------------
\* Properties

TypeOK == regs \in [Addrs(NRegs) -> AllVals]

\* const_zero: register 0 keeps its initial / reset value for ever
ConstZeroInv == ConstZero => regs[0] = Reg0Value(HasReset, ResetValue)

\* --- predicates on the state AFTER a cycle (out = the ports of that cycle, out.before = the contents before it)

\* read data equals contents (before the edge)
ReadExact == \A i \in DOMAIN out.ra : out.rdata[i] = out.before[out.ra[i]]

\* ports that write register a in the last cycle
Writers(o, a) == {i \in DOMAIN o.wa : o.we[i] /\ o.wa[i] = a /\ ~(ConstZero /\ a = 0)}
Max(S) == CHOOSE x \in S : \A y \in S : y <= x

\* frame: a register changes only by an enabled write to its address (or by reset)
Frame == \A a \in Addrs(NRegs) :
            regs[a] # out.before[a] =>
                \/ (HasReset /\ out.rst /\ regs[a] = ResetValue)
                \/ (~(HasReset /\ out.rst) /\ \E i \in Writers(out, a) : regs[a] = out.wd[i])

\* every enabled write commits; of several ports writing one address the last one wins
LastPortWins == ~(HasReset /\ out.rst) =>
                    \A a \in Addrs(NRegs) :
                        regs[a] = IF Writers(out, a) = {} THEN out.before[a] ELSE out.wd[Max(Writers(out, a))]

\* reset sets every register to the reset value (RegisterFileRst); no effect on RegisterFile
ResetExact == out.rst => IF HasReset THEN \A a \in Addrs(NRegs) : regs[a] = ResetValue
                                     ELSE LastPortWins

StepProps == [][ (ReadExact /\ Frame /\ LastPortWins /\ ResetExact)' /\ out'.before = regs ]_vars

\* NOT a property: TLC must refute it (guards against the step properties being checked vacuously)
CanaryNothingEverWritten == [][ regs' = regs ]_vars
=============================================================================
