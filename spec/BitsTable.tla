------------------------------ MODULE BitsTable ------------------------------
(***************************************************************************)
(* Exhaustive case tables for C04 / C05, computed by TLC from BitsObj.tla  *)
(* (spec -> code direction).  One run evaluates one family Fam for the     *)
(* object widths WLo..WHi and writes one JSON object per case to the file  *)
(* named by the environment variable VERIF_OUT (ndjson):                   *)
(*                                                                         *)
(*   pure ops   {op, refl, args, any, outs: [outcome...]}                  *)
(*   mutators   {op, refl, pre: state, args, any, outs: [{out, post}...]}  *)
(*                                                                         *)
(* with operands / outcomes / states encoded as in BitsObj.tla.  The       *)
(* harness executes every row on the real Bits API and requires the real   *)
(* outcome to be one of `outs` (unless any).  Families and their domains   *)
(* (w = object width, M = 2^w, every value a \in 0..M-1):                  *)
(*   bin_bb   all 16 binary ops, Bits(w,a) op Bits(w,b)                    *)
(*   bin_bi   Bits(w,a) op i and i op Bits(w,a), i \in -(M+1)..(M+1)       *)
(*   bin_bx   Bits(w,a) op Bits(w2,b), w2 # w, w2 <= P1                    *)
(*   un       invert int uint pyint index bool nbits clone deepcopy        *)
(*   hash     hash(Bits(w,a)) == hash(Bits(w2,b)), w2 <= P1                *)
(*   new      Bits(w, v, trunc): v int in -(M+2)..(M+2) or Bits(w2<=P1,b)  *)
(*   assign, nbassign   same values, object Bits(w,a)                      *)
(*   getbit   x[i], i \in -3..w+2        getslice  x[lo:hi], lo,hi \in     *)
(*            {None} \cup -2..w+2        getstep   x[lo:hi:s], s \in       *)
(*            {0,1,2,-1}                                                   *)
(*   setbit, setslice, setstep   the same index domains, value any Bits of *)
(*            width <= 3 or int in -9..9                                   *)
(*   concat2 / concat3   total width <= P1    ext  zext/sext to n <= P1,   *)
(*            trunc to n <= w     red  reduce_and/or/xor                   *)
(*   clog2    N \in 1..P1                                                  *)
(***************************************************************************)
EXTENDS Integers, Sequences, FiniteSets, TLC, Json, IOUtils
LOCAL INSTANCE SequencesExt

CONSTANTS Fam, WLo, WHi, P1

O == INSTANCE BitsObj WITH Ws <- {1}, VWs <- {1}, IMax <- 0, Acts <- {}, st <- 0, res <- 0
B == INSTANCE BV WITH LB <- 15

Bx(w, n) == O!BitsOp(B!FromNat(w, n))
Ix(i)    == O!IntOp(i < 0, B!FromNat(31, IF i < 0 THEN -i ELSE i))
Bd(i)    == IF i = -3 THEN <<>> ELSE <<i>>                 \* bound code -3 = None
St(w, a) == O!MkState(B!FromNat(w, a))
Val(c)   == IF c[1] = 1 THEN Bx(c[2], c[3]) ELSE Ix(c[3])  \* value code <<1, w, n>> | <<0, 0, i>>

BinOpSeq == <<"add", "sub", "mul", "floordiv", "mod", "and", "or", "xor", "lshift", "rshift",
              "eq", "ne", "lt", "le", "gt", "ge">>
UnOpSeq  == <<"invert", "int", "uint", "pyint", "index", "bool", "nbits", "clone", "deepcopy">>
ExtSeq   == <<"zext", "sext", "trunc">>
RedSeq   == <<"reduce_and", "reduce_or", "reduce_xor">>

Pure(op, refl, args, outs) ==
    [op |-> op, refl |-> refl, args |-> args, any |-> outs.any, outs |-> SetToSeq(outs.outs)]
Mut(op, pre, args, pairs) ==
    [op |-> op, refl |-> FALSE, pre |-> pre, args |-> args, any |-> FALSE,
     outs |-> SetToSeq({[out |-> p[1], post |-> p[2]] : p \in pairs})]

SmallVals  == {<<1, vw, n>> : vw \in 1..3, n \in 0..7} \cup {<<0, 0, i>> : i \in (-9)..9}
SetVals    == {c \in SmallVals : c[1] = 0 \/ c[3] < 2^c[2]}
NewVals(w) == {<<0, 0, i>> : i \in (-(2^w + 2))..(2^w + 2)}
                \cup {c \in {<<1, vw, n>> : vw \in 1..P1, n \in 0..(2^P1 - 1)} : c[3] < 2^c[2]}

\* the cases of family Fam at width w (tuples of small integers), and the row of a case
Cases(w) ==
    LET A == 0..(2^w - 1)
    IN  CASE Fam = "bin_bb"   -> {<<o, a, b>> : o \in 1..16, a \in A, b \in A}
          [] Fam = "bin_bi"   -> {<<o, r, a, i>> : o \in 1..16, r \in 0..1, a \in A, i \in (-(2^w + 1))..(2^w + 1)}
          [] Fam = "bin_bx"   -> {c \in {<<o, a, w2, b>> : o \in 1..16, a \in A, w2 \in (1..P1) \ {w}, b \in 0..(2^P1 - 1)}
                                    : c[4] < 2^c[3]}
          [] Fam = "un"       -> {<<o, a>> : o \in 1..Len(UnOpSeq), a \in A}
          [] Fam = "hash"     -> {c \in {<<a, w2, b>> : a \in A, w2 \in 1..P1, b \in 0..(2^P1 - 1)} : c[3] < 2^c[2]}
          [] Fam = "new"      -> {<<t, c>> : t \in 0..1, c \in NewVals(w)}
          [] Fam \in {"assign", "nbassign"} -> {<<a, c>> : a \in A, c \in NewVals(w)}
          [] Fam = "getbit"   -> {<<a, i>> : a \in A, i \in (-3)..(w + 2)}
          [] Fam = "getslice" -> {<<a, lo, hi>> : a \in A, lo \in (-3)..(w + 2), hi \in (-3)..(w + 2)}
          [] Fam = "getstep"  -> {<<a, lo, hi, s>> : a \in A, lo \in (-3)..(w + 2), hi \in (-3)..(w + 2), s \in {0, 1, 2, -1}}
          [] Fam = "setbit"   -> {<<a, i, c>> : a \in A, i \in (-3)..(w + 2), c \in SetVals}
          [] Fam = "setslice" -> {<<a, lo, hi, c>> : a \in A, lo \in (-3)..(w + 2), hi \in (-3)..(w + 2), c \in SetVals}
          [] Fam = "setstep"  -> {<<a, lo, hi, s>> : a \in A, lo \in (-3)..(w + 2), hi \in (-3)..(w + 2), s \in {0, 1, 2, -1}}
          [] Fam = "concat2"  -> {c \in {<<a, w2, b>> : a \in A, w2 \in 1..(P1 - w), b \in 0..(2^(P1 - w) - 1)} : c[3] < 2^c[2]}
          [] Fam = "concat3"  -> {c \in {<<a, w2, b, w3, d>> : a \in A, w2 \in 1..(P1 - w - 1), b \in 0..(2^(P1 - w - 1) - 1),
                                                               w3 \in 1..(P1 - w - 1), d \in 0..(2^(P1 - w - 1) - 1)}
                                    : w + c[2] + c[4] <= P1 /\ c[3] < 2^c[2] /\ c[5] < 2^c[4]}
          [] Fam = "ext"      -> {<<1, a, n>> : a \in A, n \in w..P1} \cup {<<2, a, n>> : a \in A, n \in w..P1}
                                    \cup {<<3, a, n>> : a \in A, n \in 1..w}
          [] Fam = "red"      -> {<<o, a>> : o \in 1..3, a \in A}
          [] Fam = "clog2"    -> {<<n>> : n \in 1..P1}

Row(w, c) ==
    CASE Fam = "bin_bb"   -> Pure(BinOpSeq[c[1]], FALSE, <<Bx(w, c[2]), Bx(w, c[3])>>,
                                  O!BinOuts(BinOpSeq[c[1]], FALSE, Bx(w, c[2]), Bx(w, c[3])))
      [] Fam = "bin_bi"   -> Pure(BinOpSeq[c[1]], c[2] = 1, <<Bx(w, c[3]), Ix(c[4])>>,
                                  O!BinOuts(BinOpSeq[c[1]], c[2] = 1, Bx(w, c[3]), Ix(c[4])))
      [] Fam = "bin_bx"   -> Pure(BinOpSeq[c[1]], FALSE, <<Bx(w, c[2]), Bx(c[3], c[4])>>,
                                  O!BinOuts(BinOpSeq[c[1]], FALSE, Bx(w, c[2]), Bx(c[3], c[4])))
      [] Fam = "un"       -> Pure(UnOpSeq[c[1]], FALSE, <<Bx(w, c[2])>>, O!UnOuts(UnOpSeq[c[1]], Bx(w, c[2])))
      [] Fam = "hash"     -> Pure("hash_eq", FALSE, <<Bx(w, c[1]), Bx(c[2], c[3])>>, O!HashEqOuts(Bx(w, c[1]), Bx(c[2], c[3])))
      [] Fam = "new"      -> Mut("new", St(w, 0), <<w, Val(c[2]), c[1] = 1>>, O!NewOuts(w, Val(c[2]), c[1] = 1))
      [] Fam = "assign"   -> Mut("assign", St(w, c[1]), <<Val(c[2])>>, O!AssignOuts(St(w, c[1]), Val(c[2])))
      [] Fam = "nbassign" -> Mut("nbassign", St(w, c[1]), <<Val(c[2])>>, O!NbAssignOuts(St(w, c[1]), Val(c[2])))
      [] Fam = "getbit"   -> Pure("getbit", FALSE, <<Bx(w, c[1]), c[2]>>, O!GetBitOuts(Bx(w, c[1]), c[2]))
      [] Fam = "getslice" -> Pure("getslice", FALSE, <<Bx(w, c[1]), Bd(c[2]), Bd(c[3]), <<>> >>,
                                  O!GetSliceOuts(Bx(w, c[1]), Bd(c[2]), Bd(c[3]), <<>>))
      [] Fam = "getstep"  -> Pure("getslice", FALSE, <<Bx(w, c[1]), Bd(c[2]), Bd(c[3]), <<c[4]>> >>,
                                  O!GetSliceOuts(Bx(w, c[1]), Bd(c[2]), Bd(c[3]), <<c[4]>>))
      [] Fam = "setbit"   -> Mut("setbit", St(w, c[1]), <<c[2], Val(c[3])>>, O!SetBitOuts(St(w, c[1]), c[2], Val(c[3])))
      [] Fam = "setslice" -> Mut("setslice", St(w, c[1]), <<Bd(c[2]), Bd(c[3]), <<>>, Val(c[4])>>,
                                 O!SetSliceOuts(St(w, c[1]), Bd(c[2]), Bd(c[3]), <<>>, Val(c[4])))
      [] Fam = "setstep"  -> Mut("setslice", St(w, c[1]), <<Bd(c[2]), Bd(c[3]), <<c[4]>>, Bx(1, 1)>>,
                                 O!SetSliceOuts(St(w, c[1]), Bd(c[2]), Bd(c[3]), <<c[4]>>, Bx(1, 1)))
      [] Fam = "concat2"  -> Pure("concat", FALSE, <<Bx(w, c[1]), Bx(c[2], c[3])>>, O!ConcatOuts(<<Bx(w, c[1]), Bx(c[2], c[3])>>))
      [] Fam = "concat3"  -> Pure("concat", FALSE, <<Bx(w, c[1]), Bx(c[2], c[3]), Bx(c[4], c[5])>>,
                                  O!ConcatOuts(<<Bx(w, c[1]), Bx(c[2], c[3]), Bx(c[4], c[5])>>))
      [] Fam = "ext"      -> Pure(ExtSeq[c[1]], FALSE, <<Bx(w, c[2]), c[3]>>,
                                  (CASE c[1] = 1 -> O!ZextOuts(Bx(w, c[2]), c[3])
                                     [] c[1] = 2 -> O!SextOuts(Bx(w, c[2]), c[3])
                                     [] c[1] = 3 -> O!TruncOuts(Bx(w, c[2]), c[3])))
      [] Fam = "red"      -> Pure(RedSeq[c[1]], FALSE, <<Bx(w, c[2])>>, O!RedOuts(RedSeq[c[1]], Bx(w, c[2])))
      [] Fam = "clog2"    -> Pure("clog2", FALSE, <<Ix(c[1])>>, O!Clog2Outs(Ix(c[1])))

RowsOf(w) == LET s == SetToSeq(Cases(w)) IN [i \in 1..Len(s) |-> Row(w, s[i])]
AllRows   == FoldLeft(LAMBDA acc, w : acc \o RowsOf(w), <<>>, [i \in 1..(WHi - WLo + 1) |-> WLo + i - 1])

VARIABLE done
Init == /\ done = Len(AllRows)
        /\ ndJsonSerialize(IOEnv.VERIF_OUT, AllRows)
        /\ PrintT(<<"R", Fam, WLo, WHi, done>>)
Next == UNCHANGED done
Spec == Init /\ [][Next]_done
=============================================================================
