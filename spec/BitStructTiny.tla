--------------------------- MODULE BitStructTiny ---------------------------
(***************************************************************************)
(* C06: the object state machine of BitStruct.tla (Assign @=, NbAssign     *)
(* <<=, Flip, Clone, DeepCopy, from_bits, default construction, leaf       *)
(* mutation in place / by rebinding) explored EXHAUSTIVELY for one tiny    *)
(* shape, read from the JSON file $VERIF_INPUT ({"shape": ...}).  The      *)
(* harness dumps the state graph and replays every transition on real      *)
(* objects.  cfg (generated):    Names = {"x", "y"}                        *)
(*                                                                         *)
(* BitStruct is INSTANTIATED with Shape <- InputShape (a constant-level    *)
(* definition of this module, evaluated once).  A cfg substitution         *)
(* `Shape <- InputShape` would make TLC re-read the JSON file at every     *)
(* reference to Shape and run out of file descriptors on larger graphs.    *)
(* Do is spelled out here (not B!Do) so that the edges of the dumped graph *)
(* are labelled  Do(<action record>).                                      *)
(***************************************************************************)
EXTENDS Naturals, Sequences, FiniteSets, TLC, Json, IOUtils

InputShape == JsonDeserialize(IOEnv.VERIF_INPUT).shape

CONSTANT Names
VARIABLE objs

B == INSTANCE BitStruct WITH Shape <- InputShape

Init  == B!Init
Do(a) == B!Enabled(InputShape, objs, a) /\ objs' = B!Step(InputShape, objs, a)
Next  == \E a \in B!Actions : Do(a)
Spec  == Init /\ [][Next]_objs

TypeOK       == B!TypeOK
PackedAgrees == B!PackedAgrees
NoAliasing   == B!NoAliasing
NbInvisible  == B!NbInvisible
=============================================================================
