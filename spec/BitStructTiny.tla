--------------------------- MODULE BitStructTiny ---------------------------
(***************************************************************************)
(* C06: the object state machine of BitStruct.tla (Assign @=, NbAssign     *)
(* <<=, Flip, Clone, DeepCopy, from_bits, leaf mutation in place / by      *)
(* rebinding) explored EXHAUSTIVELY for one tiny shape, read from the JSON *)
(* file $VERIF_INPUT ({"shape": ...}).  The harness dumps the state graph  *)
(* and replays every transition on real objects.  cfg (generated):         *)
(*    Shape <- InputShape    Names = {"x", "y"}                            *)
(***************************************************************************)
EXTENDS BitStruct, Json, IOUtils

InputShape == JsonDeserialize(IOEnv.VERIF_INPUT).shape
=============================================================================
