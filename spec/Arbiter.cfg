SPECIFICATION Spec
CONSTANTS N = 4
          HasEn = TRUE
INVARIANT TypeOK
INVARIANT OneHot0
INVARIANT GrantsAreReqs
INVARIANT GrantIffReq
INVARIANT BoundedWait
PROPERTY Rotates
PROPERTY Holds
