-------------------------------- MODULE Vcd --------------------------------
(***************************************************************************)
(* Value change dumps (pymtl3/passes/tracing/VcdGenerationPass.py) and the *)
(* text wave (PrintTextWavePass.py), property C16.                         *)
(*                                                                         *)
(* Part 1 - pure definitions: the VCD READING RULE.  A reader keeps        *)
(*   cur : Symbol -> BitString   ("a variable holds its last dumped value  *)
(*                                 until it is changed")                   *)
(*   now                          the last `#t` seen (-1 in the initial    *)
(*                                 section that precedes the first `#t`)   *)
(*   decl / wid                   the `$var`s of the header                *)
(* and is driven by the events of the file: Header events (scope, var,     *)
(* upscope, enddefs), Change(sym, value), Time(t), Eof.  The value of a    *)
(* variable AT time T is its value after all changes stamped T, i.e. when  *)
(* the next `#t'` (or the end of the file) is read.  Bit strings are TLA+  *)
(* strings over 0/1 (x/z only ever come from a file), most significant bit *)
(* first.                                                                  *)
(*                                                                         *)
(* Time scale and clock phase (read off dump_vcd_inner): simulated cycle c *)
(* is stamped  #(Period*c);  the clock symbol is "1" on                    *)
(* [Period*c, Period*c+Half) and "0" on [Period*c+Half, Period*(c+1)),     *)
(* so it rises exactly once per simulated cycle, at the stamp of the       *)
(* cycle, and falls exactly once, Half later (Period = 100, Half = 50).    *)
(* After N dumps the file ends with the rise that opens cycle N.           *)
(*                                                                         *)
(* Part 2 - a small closed model: an abstract simulator picks net values   *)
(* every cycle, a writer with per-net CHANGE COMPRESSION (`last`) appends  *)
(* events to `file`, the reader of part 1 consumes them.  Invariant:       *)
(* what the reader reconstructs at the stamp of cycle c is what every      *)
(* signal held in the simulator in cycle c.  `Fault` seeds writer bugs so  *)
(* that the invariants are shown to be non-vacuous.                        *)
(*                                                                         *)
(* VcdTrace.tla instantiates this module for the pure part only and        *)
(* validates real .vcd files against snapshots of the real simulator.      *)
(***************************************************************************)
EXTENDS Naturals, Integers, Sequences, FiniteSets, TLC, SequencesExt

CONSTANTS Sigs,      \* signal names of the model design (strings)
          Width,     \* [Sigs -> 1..]           declared width
          SymOf,     \* [Sigs -> symbols]       signals of one net share a symbol
          Dom,       \* [symbols -> SUBSET BitString]  values the simulator may drive on a net
          ClkSym,    \* symbol of the clock net (its members are exempt from ReplayExact)
          NCycles,   \* number of simulated cycles (dumps)
          Period, Half,
          Fault      \* "none" | "benign-redundant" | "last-not-updated" | "no-init" | "clock-phase"
                     \*  | "rep-of-other-net"

---------------------------------------------------------------------------
\* Part 1: pure definitions (everything is parameterised; no state)

RECURSIVE Zeros(_)
Zeros(w) == IF w = 0 THEN ""
            ELSE IF w % 2 = 0 THEN LET h == Zeros(w \div 2) IN h \o h
            ELSE "0" \o Zeros(w - 1)

\* packed layout of a struct-typed signal: the leaves (fields in declaration order, nested
\* structs and list fields flattened in order) concatenated, FIRST FIELD MOST SIGNIFICANT
Pack(leaves) == FoldLeft(LAMBDA a, b : a \o b, "", leaves)

\* a dumped vector may be shorter than the variable: it is left-extended (with zeros; a value
\* whose leading character is x/z can never equal a simulator value whatever the extension)
Extend(v, w) == IF Len(v) >= w THEN v ELSE Zeros(w - Len(v)) \o v

\* --- reader state
R0 == [stack |-> <<>>, decl |-> {}, wid |-> <<>>, cur |-> <<>>, now |-> -1, defs |-> FALSE]

ScopeErr(r, ev)   == IF r.defs THEN "scope-after-enddefinitions" ELSE "ok"
ScopeStep(r, ev)  == [r EXCEPT !.stack = Append(@, ev.name)]
UpErr(r, ev)      == IF r.defs THEN "scope-after-enddefinitions"
                     ELSE IF r.stack = <<>> THEN "upscope-without-scope" ELSE "ok"
UpStep(r, ev)     == [r EXCEPT !.stack = SubSeq(@, 1, Len(@) - 1)]

VarErr(r, ev) ==
    IF r.defs THEN "var-after-enddefinitions"
    ELSE IF r.stack = <<>> THEN "var-outside-scope"
    ELSE IF ev.w < 1 THEN "var-width-not-positive"
    ELSE IF ev.sym \in DOMAIN r.wid /\ r.wid[ev.sym] # ev.w THEN "symbol-declared-with-two-widths"
    ELSE IF \E d \in r.decl : d.path = r.stack /\ d.name = ev.name THEN "duplicate-var"
    ELSE "ok"
VarStep(r, ev) ==
    [r EXCEPT !.decl = @ \cup {[path |-> r.stack, name |-> ev.name, sym |-> ev.sym, w |-> ev.w]},
              !.wid  = IF ev.sym \in DOMAIN @ THEN @ ELSE (ev.sym :> ev.w) @@ @]

EndDefsErr(r, ev)  == IF r.defs THEN "two-enddefinitions"
                      ELSE IF r.stack # <<>> THEN "unclosed-scope" ELSE "ok"
EndDefsStep(r, ev) == [r EXCEPT !.defs = TRUE]

ChangeErr(r, ev) ==
    IF ~r.defs THEN "change-before-enddefinitions"
    ELSE IF ev.sym \notin DOMAIN r.wid THEN "change-of-undeclared-symbol"
    ELSE IF Len(ev.v) = 0 THEN "empty-value"
    ELSE IF Len(ev.v) > r.wid[ev.sym] THEN "value-wider-than-var"
    ELSE "ok"
\* THE READING RULE: only the named symbol changes, everything else holds its value
ChangeStep(r, ev) ==
    LET v == Extend(ev.v, r.wid[ev.sym]) IN
    [r EXCEPT !.cur = IF ev.sym \in DOMAIN @ THEN [@ EXCEPT ![ev.sym] = v] ELSE (ev.sym :> v) @@ @]

TimeErr(r, ev) == IF ~r.defs THEN "time-before-enddefinitions"
                  ELSE IF ev.t <= r.now THEN "time-not-increasing" ELSE "ok"
TimeStep(r, ev) == [r EXCEPT !.now = ev.t]

\* --- initial section: everything declared has a value, and it is the default (all zeros)
InitErr(r) ==
    IF \E y \in DOMAIN r.wid : y \notin DOMAIN r.cur THEN "initial-value-missing"
    ELSE IF \E y \in DOMAIN r.wid : r.cur[y] # Zeros(r.wid[y]) THEN "initial-value-not-default"
    ELSE "ok"

\* --- clock / time scale
IsStamp(t, P)     == t >= 0 /\ t % P = 0
CycleOf(t, P)     == t \div P
ClkLevel(t, P, H) == IF t % P < H THEN "1" ELSE "0"
\* the clock is constant on [a, b) (no change is stamped in between); that is legal iff the
\* interval lies in one half period and the level is that of the half period
ClkErr(r, clk, b, P, H) ==
    IF clk \notin DOMAIN r.cur THEN "no-clock-variable"
    ELSE IF r.now \div H # (b - 1) \div H THEN "clock-edge-missing"
    ELSE IF r.cur[clk] # ClkLevel(r.now, P, H) THEN "clock-level-wrong"
    ELSE "ok"

\* --- change compression (writer side): the nets whose value differs from the last dumped one
Changed(last, nv) == {n \in DOMAIN nv : last[n] # nv[n]}

---------------------------------------------------------------------------
\* Part 2: the closed model  simulator -> writer -> file -> reader

Nets     == {SymOf[s] : s \in Sigs}
DataNets == Nets \ {ClkSym}
NetW(n)  == Width[CHOOSE s \in Sigs : SymOf[s] = n]
NetSeq   == SetToSeq(DataNets)          \* some fixed dump order
SigSeq   == SetToSeq(Sigs)
\* the signal whose value the writer evaluates for a net
Rep(n)   == IF Fault = "rep-of-other-net" /\ Cardinality(DataNets) > 1
            THEN CHOOSE s \in Sigs : SymOf[s] \in DataNets /\ SymOf[s] # n /\ Width[s] = NetW(n)
            ELSE CHOOSE s \in Sigs : SymOf[s] = n

VARIABLES phase,     \* "hdr" | "run" | "done"
          cyc,       \* dumps done
          last,      \* writer: [DataNets -> last dumped string]
          snap,      \* history: snap[c+1] = [Sigs -> value in simulated cycle c]
          file,      \* the events written so far
          pos, rd,   \* reader: next event, reader state (part 1)
          rec,       \* reader: rec[c+1] = rd.cur sampled at the stamp of cycle c
          verr       \* first reader complaint ("ok" if none)
vars == <<phase, cyc, last, snap, file, pos, rd, rec, verr>>

Ev(k)           == [k |-> k]
EvVar(s)        == [k |-> "var", w |-> Width[s], sym |-> SymOf[s], name |-> s]
EvChange(y, v)  == [k |-> "change", sym |-> y, v |-> v]
EvTime(t)       == [k |-> "time", t |-> t]
High == IF Fault = "clock-phase" THEN "0" ELSE "1"
Low  == IF Fault = "clock-phase" THEN "1" ELSE "0"

Init == /\ phase = "hdr" /\ cyc = 0 /\ last = <<>> /\ snap = <<>> /\ file = <<>>
        /\ pos = 1 /\ rd = R0 /\ rec = <<>> /\ verr = "ok"

CaughtUp == pos > Len(file)

WHeader ==
    /\ phase = "hdr" /\ CaughtUp
    /\ LET skip == IF Fault = "no-init" THEN {NetSeq[1]} ELSE {}
           inits == [i \in 1 .. Len(NetSeq) |-> EvChange(NetSeq[i], Zeros(NetW(NetSeq[i])))]
       IN file' = <<[k |-> "scope", name |-> "top"]>>
                  \o [i \in 1 .. Len(SigSeq) |-> EvVar(SigSeq[i])]
                  \o <<Ev("upscope"), Ev("enddefs")>>
                  \o SelectSeq(inits, LAMBDA e : e.sym \notin skip)
                  \o <<EvChange(ClkSym, "0"), EvTime(0), EvChange(ClkSym, High)>>
    /\ last' = [n \in DataNets |-> IF Fault = "benign-redundant" THEN "" ELSE Zeros(NetW(n))]
    /\ phase' = "run"
    /\ UNCHANGED <<cyc, snap, pos, rd, rec, verr>>

\* one simulated cycle: the simulator holds net values nv (all members of a net are equal,
\* clock-net members read "0" in the simulator); the dump function runs at the clock edge
WDump(nv) ==
    /\ phase = "run" /\ cyc < NCycles /\ CaughtUp
    /\ LET val == [s \in Sigs |-> IF SymOf[s] = ClkSym THEN "0" ELSE nv[SymOf[s]]]
           seen == [n \in DataNets |-> val[Rep(n)]]        \* what the writer evaluates
           ch   == Changed(last, seen)
           t    == Period * cyc
       IN /\ snap' = Append(snap, val)
          /\ file' = file
                     \o SelectSeq([i \in 1 .. Len(NetSeq) |-> EvChange(NetSeq[i], seen[NetSeq[i]])],
                                  LAMBDA e : e.sym \in ch)
                     \o <<EvTime(t + Half), EvChange(ClkSym, Low),
                          EvTime(t + Period), EvChange(ClkSym, High)>>
          /\ last' = IF Fault = "last-not-updated" THEN last ELSE seen
    /\ cyc' = cyc + 1
    /\ UNCHANGED <<phase, pos, rd, rec, verr>>

WClose == /\ phase = "run" /\ cyc = NCycles /\ CaughtUp
          /\ file' = Append(file, Ev("eof")) /\ phase' = "done"
          /\ UNCHANGED <<cyc, last, snap, pos, rd, rec, verr>>

\* ---- reader actions (one per event of the file)
E == file[pos]
Advance(r2, e) == /\ rd' = r2 /\ pos' = pos + 1
                  /\ verr' = IF verr = "ok" THEN e ELSE verr
                  /\ UNCHANGED <<phase, cyc, last, snap, file>>

Header ==
    /\ ~CaughtUp /\ E.k \in {"scope", "upscope", "var", "enddefs"}
    /\ UNCHANGED rec
    /\ (CASE E.k = "scope"   -> Advance(ScopeStep(rd, E), ScopeErr(rd, E))
          [] E.k = "upscope" -> Advance(UpStep(rd, E), UpErr(rd, E))
          [] E.k = "var"     -> Advance(VarStep(rd, E), VarErr(rd, E))
          [] E.k = "enddefs" -> Advance(EndDefsStep(rd, E), EndDefsErr(rd, E)))

Change == /\ ~CaughtUp /\ E.k = "change"
          /\ UNCHANGED rec
          /\ IF ChangeErr(rd, E) = "ok" THEN Advance(ChangeStep(rd, E), "ok")
             ELSE Advance(rd, ChangeErr(rd, E))

\* leaving time rd.now: sample the cycle stamped there, check the clock on [now, t)
Leave(t) == IF rd.now = -1 THEN InitErr(rd) ELSE ClkErr(rd, ClkSym, t, Period, Half)
Sample   == IF IsStamp(rd.now, Period) THEN Append(rec, rd.cur) ELSE rec

Time == /\ ~CaughtUp /\ E.k = "time"
        /\ rec' = Sample
        /\ IF TimeErr(rd, E) # "ok" THEN Advance(rd, TimeErr(rd, E))
           ELSE Advance(TimeStep(rd, E), Leave(E.t))

Eof == /\ ~CaughtUp /\ E.k = "eof"
       /\ rec' = Sample
       /\ Advance(rd, IF rd.now # Period * NCycles THEN "file-does-not-end-at-the-stamp-of-cycle-N"
                      ELSE ClkErr(rd, ClkSym, rd.now + 1, Period, Half))

Next == WHeader \/ (\E nv \in {f \in [DataNets -> UNION {Dom[n] : n \in DataNets}] :
                                   \A n \in DataNets : f[n] \in Dom[n]} : WDump(nv))
        \/ WClose \/ Header \/ Change \/ Time \/ Eof

Spec == Init /\ [][Next]_vars

---------------------------------------------------------------------------
\* Properties (C16)

Finished == phase = "done" /\ CaughtUp

\* the reader never complains: header well formed, initial section complete and default,
\* time increasing, clock rule
ReaderAccepts == verr = "ok"

\* THE property: at the stamp of cycle c every signal reads back the simulator's value
ReplayExact ==
    \A c \in 1 .. Len(rec) : c <= Len(snap) =>
        \A s \in Sigs : SymOf[s] # ClkSym => SymOf[s] \in DOMAIN rec[c] /\ rec[c][SymOf[s]] = snap[c][s]

\* every signal has a $var of its own width (signals of a net may share the symbol)
AllDeclared == rd.defs => \A s \in Sigs : \E d \in rd.decl : d.name = s /\ d.w = Width[s] /\ d.sym = SymOf[s]

\* every simulated cycle was sampled, plus the opening stamp of cycle N
Complete == Finished => Len(rec) = NCycles + 1 /\ Len(snap) = NCycles

\* change compression really compresses: a net that keeps its value is not dumped again
\* (not required by C16 - used to show that the model exercises the compressed paths)
Compressed == Finished /\ Fault = "none" =>
    \A i \in 1 .. Len(file) : file[i].k = "change" /\ file[i].sym # ClkSym =>
        \A j \in 1 .. i - 1 :
            (file[j].k = "change" /\ file[j].sym = file[i].sym /\
             \A m \in j + 1 .. i - 1 : ~(file[m].k = "change" /\ file[m].sym = file[i].sym))
            => file[j].v # file[i].v
=============================================================================
