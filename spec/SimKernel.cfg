SPECIFICATION Spec
INVARIANT Confluence
INVARIANT FFInvisible
INVARIANT FFAtomic
INVARIANT ExplicitHonoured
INVARIANT SettledIsStable
