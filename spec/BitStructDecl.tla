--------------------------- MODULE BitStructDecl ---------------------------
(***************************************************************************)
(* C06, type DECLARATION histories.                                        *)
(*                                                                         *)
(* "For every bitstruct type ... to_bits lays the fields out first-field-  *)
(* most-significant" is a statement about the type the user DECLARED,      *)
(* whatever was declared before in the same process.  pymtl3 keeps a       *)
(* process-wide cache of bitstruct classes (_bitstruct_hash_cache in       *)
(* pymtl3/datatypes/bitstructs.py, keyed by class name, ordered (field     *)
(* name, field type) pairs and the add_* flags) and @bitstruct /           *)
(* mk_bitstruct return the CACHED class on a hit.  A key that forgets      *)
(* something the layout depends on (field order, a width, a list           *)
(* dimension, the nested type) silently hands out the type of an earlier   *)
(* declaration.                                                            *)
(*                                                                         *)
(* Model.  All declarations use ONE class name (nested struct classes      *)
(* included).  Shapes = a handful of shapes (JSON, $VERIF_INPUT) that are  *)
(* permutations / re-typings of each other.                                *)
(*   state    declared : the set of <<Name, shape index>> pairs declared   *)
(*            hist     : the declarations so far, <<asked, route, given>>  *)
(*            ret      : [asked, given] of the last declaration -- `given`  *)
(*                       is the index of the declaration whose class the   *)
(*                       cache hands out                                   *)
(*   action   Declare(i, r): declare Shapes[i] through route r ("src" =    *)
(*            @bitstruct on a class statement, "mk" = mk_bitstruct).  The  *)
(*            class returned is the one of the FIRST declared shape with   *)
(*            the same cache key (Key), else a new class of shape i.       *)
(*   HistoryIndependent   the returned type has exactly the field order,   *)
(*            width and Layout of the shape just declared, whatever was    *)
(*            declared before (a cache hit is legitimate iff equivalent)   *)
(*   KeySound             equal keys => equal types, for all declared      *)
(* KeyKind = "ordered" is the key of the implementation; KeyKind =         *)
(* "unordered" (a set of pairs: forgets the field order) must be REJECTED   *)
(* by TLC -- the harness runs it as a canary of this module.               *)
(* Nested struct classes are resolved structurally (the key of a struct    *)
(* field is the key of its own class), which is exact whenever keys are    *)
(* injective -- i.e. whenever KeySound holds.                              *)
(*                                                                         *)
(* spec -> code: TLC enumerates every history of length <= MaxLen (the     *)
(* dumped state graph is a tree: hist is part of the state) and writes     *)
(* the expectation of every shape (nbits, layout, sample values with       *)
(* their packed bits: Case) to $VERIF_OUT.  The harness replays every      *)
(* maximal history on the real API under a fresh class name and after      *)
(* EVERY declaration validates the class just returned -- and again all    *)
(* classes returned earlier in the history -- against these expectations.  *)
(***************************************************************************)
EXTENDS Integers, Sequences, FiniteSets, SequencesExt, TLC, Json, IOUtils

B == INSTANCE BitStruct WITH Shape <- [k |-> "leaf", w |-> 1], Names <- {}, objs <- <<>>

CONSTANTS MaxLen,     \* histories of at most this many declarations
          Routes,     \* {"src", "mk"}
          KeyKind     \* "ordered" | "unordered"

Shapes == JsonDeserialize(IOEnv.VERIF_INPUT).shapes
NS     == Len(Shapes)
Name   == "T"

---------------------------------------------------------------------------
\* the type a shape denotes: what an observer of the class can see of the packing

TypeOf(T) ==
    LET L == B!Layout(T)
    IN  [nbits  |-> B!NBits(T),
         order  |-> [i \in 1 .. Len(T.fs) |-> T.fs[i].n],
         layout |-> [i \in 1 .. Len(L) |-> [path |-> L[i].path, lo |-> L[i].lo, hi |-> L[i].hi]]]

SameType(S1, S2) == TypeOf(S1) = TypeOf(S2)

\* cache key of a declaration (the class name is the same everywhere)
RECURSIVE TKey(_)
TKey(t) ==
    CASE t.k = "leaf"   -> <<"B", t.w>>
      [] t.k = "list"   -> <<"L", t.n, TKey(t.t)>>
      [] t.k = "struct" ->
            LET items == [i \in 1 .. Len(t.fs) |-> <<t.fs[i].n, TKey(t.fs[i].t)>>]
            IN  IF KeyKind = "ordered" THEN <<"S", Name, items>>
                ELSE <<"S", Name, {items[i] : i \in 1 .. Len(items)}>>
Key(T) == TKey(T)

\* expectation table for the harness (as BitStructMC!Case, without a script)
SampleSeq(T) ==
    LET n == B!NBits(T)
    IN  <<[i \in 1 .. n |-> 0], [i \in 1 .. n |-> 1], B!AltBits(n, 0), B!CodedBits(T), B!Compl(B!CodedBits(T))>>
        \o [i \in 1 .. Len(B!Layout(T)) |-> B!WalkBits(T, i)]
Case(T) ==
    LET L == B!Layout(T)
        S == SampleSeq(T)
    IN  [shape  |-> T,
         nbits  |-> B!NBits(T),
         layout |-> [i \in 1 .. Len(L) |-> [path |-> L[i].path, lo |-> L[i].lo, hi |-> L[i].hi]],
         vals   |-> [i \in 1 .. Len(S) |-> [b |-> S[i], v |-> B!Unpack(T, S[i])]],
         script |-> <<>>]

---------------------------------------------------------------------------

VARIABLES declared, hist, ret
vars == <<declared, hist, ret>>

Init == /\ declared = {}
        /\ hist = <<>>
        /\ ret = [asked |-> 0, given |-> 0]
        /\ IOEnv.VERIF_OUT = "" \/ JsonSerialize(IOEnv.VERIF_OUT, [i \in 1 .. NS |-> Case(Shapes[i])])

\* the declaration whose class is handed out for shape i: the first one in the history with the same key
Given(i) ==
    LET hits == {k \in 1 .. Len(hist) : Key(Shapes[hist[k][1]]) = Key(Shapes[i])}
    IN  IF hits = {} THEN i
        ELSE hist[CHOOSE k \in hits : \A m \in hits : k <= m][3]

Declare(i, r) ==
    /\ Len(hist) < MaxLen
    /\ LET g == Given(i)
       IN  /\ hist' = Append(hist, <<i, r, g>>)
           /\ ret'  = [asked |-> i, given |-> g]
    /\ declared' = declared \cup {<<Name, i>>}

Next == \E i \in 1 .. NS, r \in Routes : Declare(i, r)
Spec == Init /\ [][Next]_vars

---------------------------------------------------------------------------

ASSUME ShapesOK == \A i \in 1 .. NS : B!WellFormed(Shapes[i]) /\ Shapes[i].k = "struct"
\* whatever was declared before, the type returned is the type declared
HistoryIndependent == ret.asked # 0 => SameType(Shapes[ret.given], Shapes[ret.asked])
\* ... and so is every type returned earlier
AllReturnedRight == \A k \in 1 .. Len(hist) : SameType(Shapes[hist[k][3]], Shapes[hist[k][1]])
\* a sound cache key determines the type (over everything declared so far)
KeySound == \A p, q \in declared : Key(Shapes[p[2]]) = Key(Shapes[q[2]]) => SameType(Shapes[p[2]], Shapes[q[2]])
\* declared is exactly the set of pairs in the history
DeclaredIsHistory == declared = {<<Name, hist[k][1]>> : k \in 1 .. Len(hist)}
=============================================================================
