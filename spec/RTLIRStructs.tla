---------------------------- MODULE RTLIRStructs ----------------------------
(***************************************************************************)
(* Property C10, bitstruct part: a small exhaustive model of the struct /  *)
(* packed-array rules of RTLIRTypes.tla (FieldInfo, ItemInfo, AssignInfo,  *)
(* TyInfo) over a bounded family of bitstruct types:                       *)
(*                                                                         *)
(*   top  = struct { h : Bits,  d : F }                                    *)
(*   F    = Bits | 1-D/2-D/3-D list of Bits | inner struct                 *)
(*          | 1-D/2-D list of inner structs                                *)
(*   inner struct = { x : Bits,  y : Bits | 1-D list of Bits }             *)
(*                                                                         *)
(* A state is an access path into a signal of a top type (field access at  *)
(* every depth; every list dimension indexed by a constant or by a signal; *)
(* partial indexing stops at a list) and what is done with the value the   *)
(* path denotes:  nav  (still extending the path),  copy  (assigned to the *)
(* same path of another signal of the type),  pack  (assigned to a BitsN   *)
(* signal),  unpack  (a BitsN signal assigned to it), for N the real width *)
(* and the widths a faulty product / sum over the list dimensions gives.   *)
(*                                                                         *)
(* The run-time value of a path is a value of its shape (BitStruct.tla);   *)
(* its run-time width is the length of its packed bits (to_bits()).        *)
(* Invariants: the width the rule table gives to every path equals that    *)
(* run-time width; an assignment between a struct / Bits path and a BitsN  *)
(* signal is an ExplicitMismatch exactly when the simulator raises a width *)
(* error (the lengths differ).  The harness renders every pack / unpack /  *)
(* copy state as a real update block and compares checker and simulator on *)
(* it (props/c10.py, _struct_model).                                       *)
(***************************************************************************)
EXTENDS Naturals, Integers, Sequences, FiniteSets, TLC

R == INSTANCE RTLIRTypes WITH SigWidths <- {}, Nums <- {}, LoopHi <- {}, TargetWidths <- {},
                              MaxDepth <- 0, e <- 0, d <- 0, tw <- 0
B == INSTANCE BitStruct WITH Shape <- [k |-> "leaf", w |-> 1], Names <- {}, objs <- <<>>

CONSTANTS HdrWs,       \* widths of the header field h
          LeafWs,      \* widths of the other Bits fields / list elements
          Dims,        \* list lengths
          MaxListDim,  \* 1 .. 3
          ZeroIdx      \* BOOLEAN: constant index 0 as well as the last element n - 1

Leaves(ws) == {B!Leaf(w) : w \in ws}
L1(S)      == {B!List(n, t) : n \in Dims, t \in S}
Lists(S)   == L1(S) \cup (IF MaxListDim >= 2 THEN L1(L1(S)) ELSE {})
                    \cup (IF MaxListDim >= 3 THEN L1(L1(L1(S))) ELSE {})
Inner      == {B!Struct(<<B!Fld("x", a), B!Fld("y", b)>>) :
                  a \in Leaves(LeafWs), b \in Leaves(LeafWs) \cup L1(Leaves(LeafWs))}
FieldShapes == Leaves(LeafWs) \cup Lists(Leaves(LeafWs)) \cup Inner \cup L1(Inner)
               \cup (IF MaxListDim >= 2 THEN L1(L1(Inner)) ELSE {})
Tops       == {B!Struct(<<B!Fld("h", a), B!Fld("d", t)>>) : a \in Leaves(HdrWs), t \in FieldShapes}

VARIABLES sh,     \* the type of the signals
          path,   \* sequence of steps  [k |-> "f", n |-> field] | [k |-> "c", i |-> index] | [k |-> "v"]
          op,     \* "nav" | "copy" | "pack" | "unpack"
          tw      \* width of the BitsN signal of pack / unpack (0 otherwise)
vars == <<sh, path, op, tw>>

\* ---- the shape a path denotes ------------------------------------------------------------
RECURSIVE At(_, _)
At(T, p) == IF p = <<>> THEN T
            ELSE IF Head(p).k = "f" THEN At(R!FieldT(T, Head(p).n), Tail(p))
            ELSE At(T.t, Tail(p))
Cur == At(sh, path)

\* ---- the rule table folded along the path ------------------------------------------------
IdxInfo(st, n) == IF st.k = "c" THEN R!NumInfoV(st.i)
                  ELSE R!SigInfo(R!IndexWidth(n), FALSE)      \* a signal of exactly the index width
RECURSIVE Acc(_, _)
Acc(i, p) == IF p = <<>> THEN i
             ELSE IF Head(p).k = "f" THEN Acc(R!FieldInfo(i, Head(p).n), Tail(p))
             ELSE Acc(R!ItemInfo(i, IdxInfo(Head(p), i.ty.n)), Tail(p))
PathInfo == Acc(R!SigInfoT(sh), path)

RECURSIVE AccOK(_, _)
AccOK(i, p) == /\ R!LocallyOK(i) /\ i # R!Unsup
               /\ (p # <<>> =>
                     IF Head(p).k = "f" THEN AccOK(R!FieldInfo(i, Head(p).n), Tail(p))
                     ELSE AccOK(R!ItemInfo(i, IdxInfo(Head(p), i.ty.n)), Tail(p)))
PathOK == AccOK(R!SigInfoT(sh), path)

VecInfo   == R!SigInfo(tw, FALSE)
BlockInfo == CASE op = "pack"   -> R!AssignInfo(VecInfo, PathInfo)
               [] op = "unpack" -> R!AssignInfo(PathInfo, VecInfo)
               [] op = "copy"   -> R!AssignInfo(PathInfo, PathInfo)
               [] OTHER         -> R!NoInfo
WellTyped == PathOK /\ R!LocallyOK(BlockInfo)

\* ---- run time ------------------------------------------------------------------------------
\* the value of the path in the all-zero signal, and the width of its packed bits
RtWidth == Len(B!Pack(Cur, B!Zero(Cur)))
\* BitsN @= struct / Bits raises unless the widths agree; struct @= BitsN goes through from_bits,
\* which asserts it; a list is not a value that can be assigned (TypeError, not a width error)
RaisesWidthError == op \in {"pack", "unpack"} /\ Cur.k # "list" /\ RtWidth # tw

\* ---- widths a faulty computation would give ---------------------------------------------
RECURSIVE ElemOf(_)
ElemOf(T) == IF T.k = "list" THEN ElemOf(T.t) ELSE T
RECURSIVE FirstDimOnly(_)
FirstDimOnly(T) ==
    CASE T.k = "leaf"   -> T.w
      [] T.k = "struct" -> B!SumSeq([j \in 1 .. Len(T.fs) |-> FirstDimOnly(T.fs[j].t)])
      [] T.k = "list"   -> T.n * FirstDimOnly(ElemOf(T))
RECURSIVE NoDims(_)
NoDims(T) ==
    CASE T.k = "leaf"   -> T.w
      [] T.k = "struct" -> B!SumSeq([j \in 1 .. Len(T.fs) |-> NoDims(T.fs[j].t)])
      [] T.k = "list"   -> NoDims(T.t)
Widths(T) == IF T.k = "struct"
             THEN {B!NBits(T), FirstDimOnly(T), NoDims(T), B!NBits(T) + 1}
             ELSE {B!NBits(T)}

\* ---- the state machine ---------------------------------------------------------------------
Init == sh \in Tops /\ path = <<>> /\ op = "nav" /\ tw = 0

Nav(st) == /\ op = "nav" /\ path' = Append(path, st) /\ UNCHANGED <<sh, op, tw>>
Field(f)  == Cur.k = "struct" /\ R!HasField(Cur, f) /\ Nav([k |-> "f", n |-> f])
IndexC(i) == Cur.k = "list" /\ (i = Cur.n - 1 \/ (ZeroIdx /\ i = 0)) /\ Nav([k |-> "c", i |-> i])
IndexV    == Cur.k = "list" /\ Nav([k |-> "v"])
Copy      == op = "nav" /\ op' = "copy" /\ UNCHANGED <<sh, path, tw>>
Pack(w)   == op = "nav" /\ Cur.k # "list" /\ w \in Widths(Cur) /\ op' = "pack" /\ tw' = w
             /\ UNCHANGED <<sh, path>>
Unpack(w) == op = "nav" /\ Cur.k # "list" /\ w \in Widths(Cur) /\ op' = "unpack" /\ tw' = w
             /\ UNCHANGED <<sh, path>>

MaxW == 512      \* every width of Widths(T), T in the family, is below
ASSUME \A T \in Tops : \A w \in Widths(T) : w <= MaxW
Next == \/ \E f \in {"h", "d", "x", "y"} : Field(f)
        \/ \E i \in {0} \cup {n - 1 : n \in Dims} : IndexC(i)
        \/ IndexV
        \/ Copy
        \/ \E w \in 1 .. MaxW : Pack(w)          \* (a constant range: TLC reports Pack / Unpack as actions)
        \/ \E w \in 1 .. MaxW : Unpack(w)

Spec == Init /\ [][Next]_vars

\* ---- invariants -------------------------------------------------------------------------
TypeOK == /\ B!WellFormed(sh) /\ B!WellFormed(Cur)
          /\ op \in {"nav", "copy", "pack", "unpack"}
\* the width of every path is the width of the value the simulator computes for it
WidthIsPackedWidth == PathOK /\ PathInfo.w = RtWidth /\ PathInfo.ex /\ PathInfo.ty = Cur
\* struct = sum of its fields, list = element x product of the dimensions
RECURSIVE DimProduct(_)
DimProduct(T) == IF T.k = "list" THEN T.n * DimProduct(T.t) ELSE 1
WidthIsSumAndProduct ==
    /\ Cur.k = "struct" => PathInfo.w = B!SumSeq([j \in 1 .. Len(Cur.fs) |-> B!NBits(Cur.fs[j].t)])
    /\ Cur.k = "list"   => PathInfo.w = DimProduct(Cur) * B!NBits(ElemOf(Cur))
\* accepted => no width error;  width error => ExplicitMismatch (rejected)
AcceptedNoWidthError == WellTyped => ~RaisesWidthError
MismatchIffWidthError == (op \in {"pack", "unpack"}) => (BlockInfo.mis <=> RaisesWidthError)
\* a whole-struct / field copy is always well typed
CopyWellTyped == (op = "copy" /\ Cur.k # "list") => WellTyped

\* projection for the spec -> code replay
Proj == [w |-> PathInfo.w, ok |-> WellTyped, mis |-> BlockInfo.mis, werr |-> RaisesWidthError]
=============================================================================
