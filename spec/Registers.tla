------------------------------ MODULE Registers ------------------------------
(***************************************************************************)
(* The four registers of pymtl3/stdlib/basic_rtl/registers.py (Reg, RegEn, *)
(* RegRst, RegEnRst) - the state elements of the round-robin arbiters      *)
(* (priority register = RegEnRst with reset value 1) and of the library    *)
(* queues' control logic.                                                  *)
(*                                                                         *)
(* State: `out` (the visible register value).  One action per clock cycle: *)
(* Cycle(in, en, rst) - the inputs are applied, the clock edge commits.    *)
(* Reset has priority over enable (RegEnRst); a register without a reset   *)
(* term ignores `rst`, one without an enable ignores `en`.                 *)
(***************************************************************************)
EXTENDS Naturals

CONSTANTS Kind,     \* "Reg" | "RegEn" | "RegRst" | "RegEnRst"
          MaxV,     \* values 0 .. MaxV
          RV        \* reset value (RegRst / RegEnRst)

VARIABLES out, lastIn, lastEn, lastRst
vars == <<out, lastIn, lastEn, lastRst>>

Vals   == 0 .. MaxV
HasEn  == Kind \in {"RegEn", "RegEnRst"}
HasRst == Kind \in {"RegRst", "RegEnRst"}

NextOut(k, rv, o, in, en, rst) ==
    IF k \in {"RegRst", "RegEnRst"} /\ rst THEN rv
    ELSE IF k \in {"RegEn", "RegEnRst"} /\ ~en THEN o
    ELSE in

Init == out \in Vals /\ lastIn = 0 /\ lastEn = FALSE /\ lastRst = FALSE    \* a register powers up with any value

Cycle(in, en, rst) ==
    /\ out' = NextOut(Kind, RV, out, in, en, rst)
    /\ lastIn' = in /\ lastEn' = en /\ lastRst' = rst

Next == \E in \in Vals, en \in BOOLEAN, rst \in BOOLEAN : Cycle(in, en, rst)
Spec == Init /\ [][Next]_vars

---------------------------------------------------------------------------
TypeOK == out \in Vals

\* what a user relies on, as action properties
ResetWins   == [][HasRst /\ lastRst' => out' = RV]_vars
HoldsValue  == [][HasEn /\ ~lastEn' /\ ~(HasRst /\ lastRst') => out' = out]_vars
Loads       == [][(~HasEn \/ lastEn') /\ ~(HasRst /\ lastRst') => out' = lastIn']_vars
\* a register without reset term never depends on rst, one without enable never on en
IgnoresRst  == [][~HasRst => out' = NextOut(Kind, RV, out, lastIn', lastEn', FALSE)]_vars
IgnoresEn   == [][~HasEn  => out' = NextOut(Kind, RV, out, lastIn', TRUE, lastRst')]_vars
\* must be refuted by TLC (canary): "the value never changes"
CanaryNeverChanges == [][out' = out]_vars
=============================================================================
