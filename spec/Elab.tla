------------------------------- MODULE Elab -------------------------------
(***************************************************************************)
(* Construct-time semantics of pymtl3 designs (properties C08 and C09).     *)
(*                                                                         *)
(* A design descriptor D (read from JSON) lists                            *)
(*   comps : Seq(Nat)       parent of component c (0 for the top, c = 1)   *)
(*   sigs  : Seq([h, k, w]) top-level signals: host component, kind        *)
(*                          "in" | "out" | "wire", width in bits           *)
(*   objs  : Seq([s, lo, hi, d, t, h])  signal objects = views             *)
(*           (top-level signal s, bit range lo..hi-1, nesting depth d,     *)
(*           type tag t); s = 0 is a constant created by the component h   *)
(*   stmts : Seq(statement) construct-time statements                      *)
(*           [k |-> "c", a, b, at]        connect(a, b) executed in `at`   *)
(*           [k |-> "u" | "l" | "f", at, wr : Seq([o, op]), rd : Seq(obj), *)
(*            calls : Seq(stmt)]                                           *)
(*                     @update / `//=` lambda / @update_ff block of `at`    *)
(*           [k |-> "h", at, wr, rd, calls]                                *)
(*                     `@s.func` helper function of component `at`.  A     *)
(*                     helper is not a driver by itself: its writes and    *)
(*                     reads belong to every BLOCK whose transitive call   *)
(*                     closure (`calls` names helper statements of the     *)
(*                     same component) contains it; one block reaching a   *)
(*                     helper along several call paths (diamond) is still  *)
(*                     ONE driver; a helper no block reaches drives        *)
(*                     nothing.                                            *)
(*                                                                         *)
(* STATE MACHINE.  The state is the SET `done` of executed statements;     *)
(* Stmt(i) executes any statement not yet executed, so the behaviours are  *)
(* exactly the statement permutations.  Stmt also maintains, the way an    *)
(* implementation would, an incrementally merged partition `part`, the set  *)
(* `wr` of direct block / helper writes and the incrementally maintained   *)
(* transitive closure `reach` of the call relation.  After the last statement the writer          *)
(* resolution runs as a nondeterministic worklist (HeadNet / Conflict /       *)
(* Stuck): headless nets are examined in ANY order.  The invariant         *)
(* OpAgrees says that every statement order and every examination order    *)
(* ends in the nets, writers and multi/no-writer verdict that the          *)
(* DECLARATIVE definition `Analysis` gives (bit level, least fixed point). *)
(* Finish prints the declarative result; the harness compares it with      *)
(* get_all_value_nets() / the exception raised by elaborate().             *)
(***************************************************************************)
EXTENDS Naturals, Integers, Sequences, FiniteSets, TLC, Json, IOUtils

Input   == JsonDeserialize(IOEnv.VERIF_INPUT)
Designs == Input.designs

---------------------------------------------------------------------------
\* Descriptor accessors

ObjIds(D)    == 1 .. Len(D.objs)
StmtIds(D)   == 1 .. Len(D.stmts)
IsConn(D, i) == D.stmts[i].k = "c"
IsBlk(D, i)  == D.stmts[i].k \in {"u", "l", "f"}
IsFun(D, i)  == D.stmts[i].k = "h"
IsConst(D, o) == D.objs[o].s = 0
OBits(D, o)  == IF IsConst(D, o) THEN {}
                ELSE {<<D.objs[o].s, j>> : j \in D.objs[o].lo .. (D.objs[o].hi - 1)}
Kind(D, o)   == IF IsConst(D, o) THEN "const" ELSE D.sigs[D.objs[o].s].k
Host(D, o)   == IF IsConst(D, o) THEN D.objs[o].h ELSE D.sigs[D.objs[o].s].h
Par(D, c)    == D.comps[c]
TopLevel(D, o) == ~IsConst(D, o) /\ D.objs[o].d = 0
WObjs(D, i)  == {D.stmts[i].wr[j].o : j \in DOMAIN D.stmts[i].wr}
RObjs(D, i)  == {D.stmts[i].rd[j] : j \in DOMAIN D.stmts[i].rd}
WBits(D, i)  == UNION {OBits(D, o) : o \in WObjs(D, i)}
WRecs(D, i)  == {D.stmts[i].wr[j] : j \in DOMAIN D.stmts[i].wr}
Calls(D, i)  == IF IsConn(D, i) THEN {} ELSE {D.stmts[i].calls[j] : j \in DOMAIN D.stmts[i].calls}
CallE(D)     == UNION {{<<i, c>> : c \in Calls(D, i)} : i \in StmtIds(D)}
TopInBits(D) == UNION {{<<s, j>> : j \in 0 .. (D.sigs[s].w - 1)} :
                         s \in {x \in DOMAIN D.sigs : D.sigs[x].h = 1 /\ D.sigs[x].k = "in"}}

---------------------------------------------------------------------------
\* Graph helpers (object graphs have at most a few dozen nodes)

Sym(E)     == E \cup {<<e[2], e[1]>> : e \in E}
Nbrs(E, X) == X \cup {e[2] : e \in {f \in E : f[1] \in X}}
RECURSIVE Grow(_, _, _)
Grow(E, X, n) == IF n = 0 THEN X
                 ELSE LET Y == Nbrs(E, X) IN IF Y = X THEN X ELSE Grow(E, Y, n - 1)
RECURSIVE Dist(_, _, _, _)
Dist(E, X, o, k) == IF o \in X \/ k > 64 THEN k ELSE Dist(E, Nbrs(E, X), o, k + 1)

---------------------------------------------------------------------------
\* Helper functions: the footprint of a block is its own plus that of every helper in its
\* transitive call closure (least fixed point of the call relation; a diamond reaches a helper
\* twice but the closure is a set).

Callees(D, i) == Grow(CallE(D), Calls(D, i), Len(D.stmts))
EWObjs(D, i)  == WObjs(D, i) \cup UNION {WObjs(D, h) : h \in Callees(D, i)}
ERObjs(D, i)  == RObjs(D, i) \cup UNION {RObjs(D, h) : h \in Callees(D, i)}
EWBits(D, i)  == UNION {OBits(D, o) : o \in EWObjs(D, i)}
HWRecs(D, i)  == UNION {WRecs(D, h) : h \in Callees(D, i)}
Recursive(D)  == \E h \in StmtIds(D) : IsFun(D, h) /\ h \in Callees(D, h)

---------------------------------------------------------------------------
\* Writer resolution, declaratively.
\*   E0      bits driven from outside every net: update-block writes and
\*           the top component's input ports
\*   H       set of <<net, writer>> of nets that have exactly one candidate
\*   a member is a candidate writer of its net iff it is a constant or one
\*   of its bits is in E0 or is carried by a non-writer member of ANOTHER
\*   headed net (least fixed point).
\*   Every non-writer member of a headed net is DRIVEN by the net (bit j of
\*   the member by bit j of the writer).  Two distinct non-writer members of
\*   ONE net that share a bit therefore drive that bit twice, from two
\*   different bits of the writer ("overlapping slices" of C09): ROverlap.

RBits(D, H, N)      == UNION {OBits(D, o) :
                                o \in UNION {M[1] \ {M[2]} : M \in {K \in H : K[1] # N}}}
CandOf(D, E0, H, N) == {v \in N : IsConst(D, v) \/ OBits(D, v) \cap (E0 \cup RBits(D, H, N)) # {}}
StepH(D, E0, nets, H) ==
    H \cup {<<N, CHOOSE v \in CandOf(D, E0, H, N) : TRUE>> :
              N \in {K \in nets \ {M[1] : M \in H} : Cardinality(CandOf(D, E0, H, K)) = 1}}
ROverlap(D, N, w) == \E u, v \in N \ {w} : u # v /\ OBits(D, u) \cap OBits(D, v) # {}
RECURSIVE FixH(_, _, _, _, _)
FixH(D, E0, nets, H, n) == IF n = 0 THEN H
                           ELSE LET H2 == StepH(D, E0, nets, H)
                                IN  IF H2 = H THEN H ELSE FixH(D, E0, nets, H2, n - 1)

---------------------------------------------------------------------------
\* Port-direction table (DESIGN.md appendix C)

\* edge of a net oriented away from the writer: u drives v; `at` executed the connect
NetRule(D, u, v, at) ==
    LET hu == Host(D, u)  hv == Host(D, v)  ku == Kind(D, u)  kv == Kind(D, v)
    IN  IF hu = hv THEN
            (IF kv \in {"out", "wire"} THEN {}
             ELSE IF ku = "out" /\ kv = "in" THEN (IF at = Par(D, hu) THEN {} ELSE {"T5L"})
             ELSE {"T5"})
        ELSE IF hv = Par(D, hu) THEN (IF ku = "out" /\ kv \in {"out", "wire"} THEN {} ELSE {"T6"})
        ELSE IF hu = Par(D, hv) THEN (IF kv = "in" THEN {} ELSE {"T7"})
        ELSE IF Par(D, hu) = Par(D, hv) THEN (IF ku = "out" /\ kv = "in" THEN {} ELSE {"T8"})
        ELSE {"T9"}

BlkRules(D, i) ==
    LET H == D.stmts[i].at
    IN  (IF \E o \in ERObjs(D, i) : Kind(D, o) = "wire" /\ Host(D, o) # H THEN {"T1"} ELSE {})
        \cup (IF \E o \in EWObjs(D, i) : Kind(D, o) = "in"   /\ Par(D, Host(D, o)) # H THEN {"T2"} ELSE {})
        \cup (IF \E o \in EWObjs(D, i) : Kind(D, o) = "out"  /\ Host(D, o) # H THEN {"T3"} ELSE {})
        \cup (IF \E o \in EWObjs(D, i) : Kind(D, o) = "wire" /\ Host(D, o) # H THEN {"T4"} ELSE {})

\* assignment operators: of the writes in W when they are executed by a block of kind k
OpRulesOf(D, k, W) ==
    IF k = "f"
    THEN (IF \E w \in W : w.op # "<<=" THEN {"OpF"} ELSE {})
         \cup (IF \E w \in W : w.op = "<<=" /\ ~TopLevel(D, w.o) THEN {"OpFNT"} ELSE {})
    ELSE (IF \E w \in W : w.op # "@=" THEN {"OpU"} ELSE {})
OpRules(D, i)  == OpRulesOf(D, D.stmts[i].k, WRecs(D, i))
\* ... of the assignments a block executes through its helpers.  The statement speaks of the
\* operator "an update block uses": whether the text of a helper counts is left open (HelperOp).
HOpRules(D, i) == OpRulesOf(D, D.stmts[i].k, HWRecs(D, i))

---------------------------------------------------------------------------
\* The analysis of a statement set S of design D.
\*   nets     connected components (> 1 member) of the connection graph
\*   writer   [net -> object]  (0: none or ambiguous)
\*   defects  defect classes present (C09); {} = legal design
\*   unspec   shapes about which the property statement is silent

Analysis(D, S) ==
    LET conn  == {i \in S : IsConn(D, i)}
        blk   == {i \in S : IsBlk(D, i)}
        E     == Sym({<<D.stmts[i].a, D.stmts[i].b>> : i \in conn})
        nets  == {N \in {Grow(E, {o}, Len(D.objs)) : o \in ObjIds(D)} : Cardinality(N) > 1}
        E0    == TopInBits(D) \cup UNION {EWBits(D, i) : i \in blk}
        Hf    == FixH(D, E0, nets, {}, Cardinality(nets) + 1)
        FC    == [N \in nets |-> CandOf(D, E0, Hf, N)]
        wrt   == [N \in nets |-> IF Cardinality(FC[N]) = 1 THEN CHOOSE v \in FC[N] : TRUE ELSE 0]
        rov   == {N \in nets : wrt[N] # 0 /\ ROverlap(D, N, wrt[N])}
        UE    == {{e[1], e[2]} : e \in {f \in E : f[1] # f[2]}}
        cyc   == {N \in nets : Cardinality({u \in UE : u \subseteq N}) >= Cardinality(N)}
        NetOf(o) == CHOOSE N \in nets : o \in N
        EdgeRule(i) ==
            LET a == D.stmts[i].a  b == D.stmts[i].b
            IN  IF a = b THEN {}
                ELSE LET N == NetOf(a)
                     IN  IF wrt[N] = 0 \/ N \in cyc THEN {}
                         ELSE IF Dist(E, {wrt[N]}, a, 0) < Dist(E, {wrt[N]}, b, 0)
                              THEN NetRule(D, a, b, D.stmts[i].at)
                              ELSE NetRule(D, b, a, D.stmts[i].at)
        \* why a bit has two different drivers: two blocks / two candidate writers in a net
        \* (block, top-level input, constant, relative driven by another net) / two overlapping
        \* members driven by one net
        mwwhy ==
               (IF \E i, j \in blk : i # j /\ EWBits(D, i) \cap EWBits(D, j) # {} THEN {"blocks"} ELSE {})
          \cup (IF \E N \in nets : Cardinality(FC[N]) > 1 THEN {"cands"} ELSE {})
          \cup (IF rov # {} THEN {"rov"} ELSE {})
        defects ==
               (IF mwwhy # {} THEN {"MW"} ELSE {})
          \cup (IF \E N \in nets : FC[N] = {} THEN {"NW"} ELSE {})
          \cup (IF cyc # {} THEN {"Loop"} ELSE {})
          \cup (IF \E i \in conn : D.stmts[i].a = D.stmts[i].b THEN {"Self"} ELSE {})
          \cup (IF \E i \in conn : D.objs[D.stmts[i].a].t # D.objs[D.stmts[i].b].t THEN {"TM"} ELSE {})
          \cup (IF \E i, j \in blk : i # j /\ D.stmts[i].k = "l" /\ D.stmts[j].k = "l"
                                    /\ D.stmts[i].at = D.stmts[j].at /\ EWObjs(D, i) = EWObjs(D, j)
                THEN {"LamClash"} ELSE {})
          \cup UNION {BlkRules(D, i) \cup OpRules(D, i) \cup HOpRules(D, i) : i \in blk}
          \cup UNION {EdgeRule(i) : i \in conn}
        unspec ==
               (IF \E i, j \in conn : i # j /\ {D.stmts[i].a, D.stmts[i].b} = {D.stmts[j].a, D.stmts[j].b}
                THEN {"DupConn"} ELSE {})
          \* a non-writer member that shares bits with the WRITER of its own net: the net feeds
          \* a signal back into itself (one driver per bit, but no loop of connections either)
          \cup (IF \E N \in nets \ rov : wrt[N] # 0 /\ \E u, v \in N : u # v /\ OBits(D, u) \cap OBits(D, v) # {}
                THEN {"NetSelfOverlap"} ELSE {})
          \* an assignment operator inside a helper that is wrong for a block that reaches it
          \cup (IF \E i \in blk : HOpRules(D, i) # {} THEN {"HelperOp"} ELSE {})
          \* helpers that call each other in a cycle (pymtl3: InvalidFuncCallError when a block
          \* reaches the cycle): not one of the statement's defects, not a legal design either
          \cup (IF Recursive(D) THEN {"FuncCycle"} ELSE {})
    IN  [nets |-> nets, writer |-> wrt, cand |-> FC, rov |-> rov, mwwhy |-> mwwhy,
         defects |-> defects, unspec |-> unspec]

\* exception classes that report a defect class (SignalTypeError carries its [Type k])
Image(d) ==
    CASE d = "MW"       -> {"MultiWriterError"}
      [] d = "NW"       -> {"NoWriterError"}
      [] d = "Loop"     -> {"InvalidConnectionError"}
      [] d = "Self"     -> {"InvalidConnectionError"}
      [] d = "TM"       -> {"InvalidConnectionError"}
      [] d = "LamClash" -> {"UpblkFuncSameNameError", "MultiWriterError"}
      [] d = "T1"       -> {"SignalTypeError:1"}
      [] d = "T2"       -> {"SignalTypeError:2"}
      [] d = "T3"       -> {"SignalTypeError:3"}
      [] d = "T4"       -> {"SignalTypeError:4"}
      [] d = "T5"       -> {"SignalTypeError:5"}
      [] d = "T5L"      -> {"InvalidConnectionError", "SignalTypeError:5"}
      [] d = "T6"       -> {"SignalTypeError:6"}
      [] d = "T7"       -> {"SignalTypeError:7"}
      [] d = "T8"       -> {"SignalTypeError:8"}
      [] d = "T9"       -> {"SignalTypeError:9"}
      [] d = "OpU"      -> {"UpdateBlockWriteError"}
      [] d = "OpF"      -> {"UpdateFFBlockWriteError"}
      [] d = "OpFNT"    -> {"UpdateFFNonTopLevelSignalError"}
      [] OTHER          -> {}
Images(ds) == UNION {Image(d) : d \in ds}

---------------------------------------------------------------------------
\* State machine: statement permutations, then the writer worklist

VARIABLES did,      \* which design of the batch
          done,     \* executed statements
          part,     \* partition of the objects, merged incrementally by connects
          wr,       \* <<block or helper, object>> direct writes registered so far
          reach,    \* <<caller, helper>>: transitive closure of the calls registered so far
          phase,    \* "stmt" | "resolve" | "end"
          headed,   \* <<net, writer>> decided so far
          verdict,  \* "" | "ok" | "MW" | "NW"
          fin
vars == <<did, done, part, wr, reach, phase, headed, verdict, fin>>

D0 == Designs[did]

Init == /\ did \in 1 .. Len(Designs)
        /\ done = {} /\ wr = {} /\ reach = {} /\ phase = "stmt" /\ headed = {} /\ verdict = "" /\ fin = FALSE
        /\ part = {{o} : o \in ObjIds(Designs[did])}

Stmt(i) ==
    /\ phase = "stmt" /\ i \in StmtIds(D0) \ done
    /\ done' = done \cup {i}
    /\ IF IsConn(D0, i)
       THEN LET pa == CHOOSE P \in part : D0.stmts[i].a \in P
                pb == CHOOSE P \in part : D0.stmts[i].b \in P
            IN  part' = (part \ {pa, pb}) \cup {pa \cup pb} /\ wr' = wr /\ reach' = reach
       ELSE /\ part' = part /\ wr' = wr \cup {<<i, o>> : o \in WObjs(D0, i)}
            \* the calls of i become edges: everything that reaches i now reaches the callee and
            \* everything the callee reaches (callees may be registered before or after callers)
            /\ LET Pred == {i} \cup {p[1] : p \in {q \in reach : q[2] = i}}
                   Succ(c) == {c} \cup {p[2] : p \in {q \in reach : q[1] = c}}
               IN  reach' = reach \cup UNION {Pred \X Succ(c) : c \in Calls(D0, i)}
    /\ phase' = IF done' = StmtIds(D0) THEN "resolve" ELSE "stmt"
    /\ UNCHANGED <<did, headed, verdict, fin>>

NoStmt == /\ phase = "stmt" /\ StmtIds(D0) = {} /\ phase' = "resolve"
          /\ UNCHANGED <<did, done, part, wr, reach, headed, verdict, fin>>

OpNets   == {P \in part : Cardinality(P) > 1}
\* <<block, object>>: what a block writes itself or through a helper it reaches
OpDrv    == {w \in wr : IsBlk(D0, w[1])}
            \cup UNION {{<<p[1], w[2]>> : w \in {v \in wr : v[1] = p[2]}} : p \in {q \in reach : IsBlk(D0, q[1])}}
OpE      == TopInBits(D0) \cup UNION {OBits(D0, w[2]) : w \in OpDrv}
                          \cup UNION {OBits(D0, o) : o \in UNION {M[1] \ {M[2]} : M \in headed}}
OpCand(N) == {v \in N : IsConst(D0, v) \/ OBits(D0, v) \cap OpE # {}}
Headless  == OpNets \ {M[1] : M \in headed}

\* a headless net is named by its smallest member (constant quantifier bounds keep TLC's
\* per-action coverage)
NetAt(o) == CHOOSE N \in Headless : o \in N /\ \A p \in N : o <= p
IsMin(o) == \E N \in Headless : o \in N /\ \A p \in N : o <= p

\* the only candidate becomes the writer -- unless two of the members it would drive overlap
OpOnly(N)  == CHOOSE v \in OpCand(N) : TRUE
HeadNet(o) == /\ phase = "resolve" /\ IsMin(o) /\ Cardinality(OpCand(NetAt(o))) = 1
              /\ ~ROverlap(D0, NetAt(o), OpOnly(NetAt(o)))
              /\ headed' = headed \cup {<<NetAt(o), OpOnly(NetAt(o))>>}
              /\ UNCHANGED <<did, done, part, wr, reach, phase, verdict, fin>>

Conflict(o) == /\ phase = "resolve" /\ IsMin(o)
               /\ \/ Cardinality(OpCand(NetAt(o))) > 1
                  \/ /\ Cardinality(OpCand(NetAt(o))) = 1
                     /\ ROverlap(D0, NetAt(o), OpOnly(NetAt(o)))
               /\ verdict' = "MW" /\ phase' = "end"
               /\ UNCHANGED <<did, done, part, wr, reach, headed, fin>>

Stuck == /\ phase = "resolve" /\ \A N \in Headless : OpCand(N) = {}
         /\ verdict' = (IF Headless = {} THEN "ok" ELSE "NW") /\ phase' = "end"
         /\ UNCHANGED <<did, done, part, wr, reach, headed, fin>>

Finish == /\ phase = "end" /\ ~fin
          /\ LET A == Analysis(D0, StmtIds(D0))
             IN  /\ \A N \in A.nets : PrintT(<<"R", did, "N", A.writer[N], N>>)
                 /\ PrintT(<<"R", did, "D", A.defects, A.unspec, A.mwwhy>>)
          /\ fin' = TRUE
          /\ UNCHANGED <<did, done, part, wr, reach, phase, headed, verdict>>

MaxStmts == CHOOSE n \in 0 .. 64 : \A d \in DOMAIN Designs : Len(Designs[d].stmts) <= n
                                  /\ \E e \in DOMAIN Designs : Len(Designs[e].stmts) = n
MaxObjs  == CHOOSE n \in 0 .. 64 : \A d \in DOMAIN Designs : Len(Designs[d].objs) <= n
                                  /\ \E e \in DOMAIN Designs : Len(Designs[e].objs) = n

Next == \/ \E i \in 1 .. MaxStmts : Stmt(i)
        \/ NoStmt
        \/ \E o \in 1 .. MaxObjs : HeadNet(o)
        \/ \E o \in 1 .. MaxObjs : Conflict(o)
        \/ Stuck
        \/ Finish

Spec == Init /\ [][Next]_vars

---------------------------------------------------------------------------
\* Every statement order and every worklist order ends in the declarative result.

OpAgrees ==
    phase = "end" =>
        LET A  == Analysis(D0, StmtIds(D0))
            mw == (\E N \in A.nets : Cardinality(A.cand[N]) > 1) \/ A.rov # {}
            nw == \E N \in A.nets : A.cand[N] = {}
        IN  /\ OpNets = A.nets
            /\ wr = UNION {{<<i, o>> : o \in WObjs(D0, i)} : i \in {j \in StmtIds(D0) : ~IsConn(D0, j)}}
            /\ reach = UNION {{<<i, h>> : h \in Callees(D0, i)} : i \in StmtIds(D0)}
            /\ OpDrv = UNION {{<<i, o>> : o \in EWObjs(D0, i)} : i \in {j \in StmtIds(D0) : IsBlk(D0, j)}}
            /\ (verdict = "MW") = mw
            /\ (verdict = "NW") = (~mw /\ nw)
            /\ (verdict = "ok") => headed = {<<N, A.writer[N]>> : N \in A.nets}
            /\ (verdict = "NW") => \A M \in headed : A.writer[M[1]] = M[2]
=============================================================================
