--------------------------- MODULE SimKernelTrace ---------------------------
(***************************************************************************)
(* Trace validation for C01 / C02 / C07 / C11: executions recorded from the *)
(* real simulator (every pass group, forced schedules, forced flip-flop     *)
(* orders) are checked to be behaviours of the kernel specification.        *)
(*                                                                         *)
(* Input (IOEnv.VERIF_INPUT): [designs: Seq(Design), traces: Seq(Trace)]    *)
(* Trace := [d: design index, cyccap: BOOLEAN (scheduler handles cycles),   *)
(*           ev: Seq(Event)]                                                *)
(* Event := [k:"init", st]           state after the passes were applied    *)
(*   | [k:"poke", s, v]              harness writes a top-level input       *)
(*   | [k:"beval"] ... [k:"eeval", st]   sim_eval_combinational()           *)
(*   | [k:"btick"] ... [k:"etick", st]   sim_tick()                         *)
(*   | [k:"step", b, st]             comb / net step b returned; st = state *)
(*   | [k:"ff", b, st]               update_ff block b returned             *)
(*   | [k:"flip", st]                double_buffer() returned               *)
(*   | [k:"recheck", b, st]          harness called block b once more       *)
(*   | [k:"raised", cls]             the simulator raised during a pass     *)
(*   | [k:"schedraise", cls]         the schedule pass refused the design   *)
(* st = the value of every storage cell (Seq(Nat)), logged after the call.  *)
(* Every action is total: the first failing clause is stored in `err`.      *)
(***************************************************************************)
EXTENDS DL, Json, IOUtils, TLC

Input   == JsonDeserialize(IOEnv.VERIF_INPUT)
Designs == Input.designs
Traces  == Input.traces

\* per-design constants, computed once
ReachOf == TLCEval([i \in DOMAIN Designs |-> Reach(Designs[i])])
PreOf   == TLCEval([i \in DOMAIN Designs |-> TLCEval([b \in DOMAIN Designs[i].steps |->
               TLCEval({a \in CombSteps(Designs[i]) : MustPrecede(Designs[i], a, b)})])])
InCycle(i, b)      == <<b, b>> \in ReachOf[i]
SameGroup(i, a, b) == a = b \/ (<<a, b>> \in ReachOf[i] /\ <<b, a>> \in ReachOf[i])
BlockCyclic(i)     == \E b \in CombSteps(Designs[i]) : InCycle(i, b)
\* a cyclic group none of whose internal constraints carries a signal (only explicit U(a) < U(b)
\* constraints close the cycle): nothing to iterate on -- must be refused (C02)
VarEdge(X, a, b)   == WBits(X, a) \cap RBits(X, b) # {}
NoVarCycleOf == TLCEval([i \in DOMAIN Designs |->
    \E b \in CombSteps(Designs[i]) :
        /\ InCycle(i, b)
        /\ \A x, y \in {z \in CombSteps(Designs[i]) : SameGroup(i, b, z)} :
              MustPrecede(Designs[i], x, y) => ~VarEdge(Designs[i], x, y)])
\* a cyclic group containing an update_once block cannot be iterated -- must be refused (C11)
OnceCycleOf == TLCEval([i \in DOMAIN Designs |->
    \E b \in CombSteps(Designs[i]) : InCycle(i, b) /\ Designs[i].steps[b].once])
MustRefuse(i) == NoVarCycleOf[i] \/ OnceCycleOf[i]

VARIABLES tid, l, err, fin,
          val, nxt, phase, done, ffdone, v0, runs
tvars == <<tid, l, err, fin, val, nxt, phase, done, ffdone, v0, runs>>

T  == Traces[tid]
d  == T.d
D  == Designs[T.d]
Ev == T.ev[l]

ZeroRuns(X) == [b \in DOMAIN X.steps |-> 0]

Init == /\ tid \in 1 .. Len(Traces)
        /\ l = 1 /\ err = "ok" /\ fin = FALSE
        /\ val = [s \in DOMAIN Designs[Traces[tid].d].sigs |-> Designs[Traces[tid].d].sigs[s].init]
        /\ nxt = val /\ v0 = val
        /\ phase = "idle" /\ done = {} /\ ffdone = {}
        /\ runs = ZeroRuns(Designs[Traces[tid].d])

Fail(c) == err' = c /\ UNCHANGED <<tid, l, fin, val, nxt, phase, done, ffdone, v0, runs>>
Adv     == l' = l + 1 /\ UNCHANGED <<tid, err, fin>>

Ready(b) == \A a \in PreOf[d][b] : ~SameGroup(d, a, b) => a \in done

\* what must hold when a combinational pass is over (C01 fixed point + reference, C02 all ran, C11 stable)
PassVerdict(st) ==
    IF done # CombSteps(D)            THEN "block-not-run"
    ELSE IF st # val                  THEN "state-changed-outside-a-block"
    ELSE IF ~D.checkfix               THEN "ok"
    ELSE IF ~Stable(D, val)           THEN "not-a-fixed-point"
    ELSE IF D.bitacyclic /\ val # Ref(D, v0) THEN "differs-from-dataflow-solution"
    ELSE "ok"

InitEv == /\ Ev.k = "init"
          /\ IF phase # "idle" \/ l # 1 THEN Fail("protocol")
             ELSE IF Ev.st # val THEN Fail("initial-state")
             ELSE Adv /\ UNCHANGED <<val, nxt, phase, done, ffdone, v0, runs>>

Poke   == /\ Ev.k = "poke"
          /\ IF phase # "idle" \/ ~D.sigs[Ev.s].inp THEN Fail("protocol")
             ELSE /\ val' = WriteCell(D.sigs[Ev.s].al, val, Ev.v)
                  /\ nxt' = WriteCell(D.sigs[Ev.s].al, nxt, Ev.v)
                  /\ Adv /\ UNCHANGED <<phase, done, ffdone, v0, runs>>

Begin  == /\ Ev.k \in {"beval", "btick"}
          /\ IF phase # "idle" THEN Fail("protocol")
             ELSE /\ phase' = (IF Ev.k = "beval" THEN "eval" ELSE "t1")
                  /\ done' = {} /\ ffdone' = {} /\ v0' = val /\ runs' = ZeroRuns(D)
                  /\ Adv /\ UNCHANGED <<val, nxt>>

Step   == /\ Ev.k = "step"
          /\ LET b == Ev.b IN
             IF phase \notin {"eval", "t1", "t2"}           THEN Fail("comb-step-outside-a-pass")
             ELSE IF b \notin CombSteps(D)                  THEN Fail("unknown-block")
             \* "exactly once when the dependency graph is acyclic" (C02).  In a block-cyclic design the
             \* implementation's cyclic groups may be larger than the cell-level groups of this
             \* specification (a net block relays a WHOLE signal, so a writer of o1[4:8] and a reader of
             \* the aliased g.i0[0:3] are linked through it): any step may then run again; its enabling
             \* condition and its effect are checked like those of a first run.
             ELSE IF b \in done /\ ~BlockCyclic(d)          THEN Fail("ran-twice")
             ELSE IF ~Ready(b)                              THEN Fail("reader-before-writer")
             ELSE IF Exec(D, b, val) # Ev.st                THEN Fail("wrong-value")
             ELSE /\ val' = Ev.st /\ done' = done \cup {b}
                  /\ runs' = [runs EXCEPT ![b] = @ + 1]
                  /\ Adv /\ UNCHANGED <<nxt, phase, ffdone, v0>>

EndEval == /\ Ev.k = "eeval"
           /\ IF phase # "eval" THEN Fail("protocol")
              ELSE LET v == PassVerdict(Ev.st) IN
                   IF v # "ok" THEN Fail(v)
                   ELSE phase' = "idle" /\ Adv /\ UNCHANGED <<val, nxt, done, ffdone, v0, runs>>

\* first flip-flop block (or the flip itself) ends the first pass of the tick
FF     == /\ Ev.k = "ff"
          /\ LET b  == Ev.b
                 pv == IF phase = "t1" THEN PassVerdict(val) ELSE "ok" IN
             IF phase \notin {"t1", "ff"}                   THEN Fail("ff-block-outside-the-edge")
             ELSE IF pv # "ok"                              THEN Fail(pv)
             ELSE IF b \notin FFSteps(D)                    THEN Fail("unknown-block")
             ELSE IF b \in ffdone                           THEN Fail("ff-ran-twice")
             ELSE IF Ev.st # val                            THEN Fail("ff-write-visible-before-edge")
             ELSE /\ nxt' = ExecFF(D, b, val, nxt) /\ ffdone' = ffdone \cup {b}
                  /\ phase' = "ff" /\ v0' = val
                  /\ Adv /\ UNCHANGED <<val, done, runs>>

Flip   == /\ Ev.k = "flip"
          /\ LET pv == IF phase = "t1" THEN PassVerdict(val) ELSE "ok" IN
             IF phase \notin {"t1", "ff"}                   THEN Fail("flip-outside-the-edge")
             ELSE IF pv # "ok"                              THEN Fail(pv)
             ELSE IF ffdone # FFSteps(D)                    THEN Fail("flip-before-last-ff-block")
             ELSE IF Ev.st # Commit(D, val, nxt)            THEN Fail("edge-commit-differs")
             ELSE IF Ev.st # EdgeRef(D, val)                THEN Fail("edge-not-atomic")
             ELSE /\ val' = Ev.st /\ nxt' = Ev.st /\ v0' = Ev.st
                  /\ phase' = "t2" /\ done' = {} /\ runs' = ZeroRuns(D)
                  /\ Adv /\ UNCHANGED <<ffdone>>

EndTick == /\ Ev.k = "etick"
           /\ IF phase # "t2" THEN Fail("tick-without-edge")
              ELSE LET v == PassVerdict(Ev.st) IN
                   IF v # "ok" THEN Fail(v)
                   ELSE phase' = "idle" /\ Adv /\ UNCHANGED <<val, nxt, done, ffdone, v0, runs>>

\* C01 last sentence: re-running any update block after evaluation changes nothing
Recheck == /\ Ev.k = "recheck"
           /\ IF phase # "idle" THEN Fail("protocol")
              ELSE IF D.checkfix /\ Ev.st # val THEN Fail("rerun-changes-state")
              ELSE Adv /\ UNCHANGED <<val, nxt, phase, done, ffdone, v0, runs>>

\* C11: a run-time cyclic-dependency error is legitimate only while the cyclic group has not
\* settled: the state is not a fixed point although every member was iterated.
Raised == /\ Ev.k = "raised"
          /\ IF phase \notin {"eval", "t1", "t2"}            THEN Fail("protocol")
             ELSE IF Ev.cls # "UpblkCyclicError"             THEN Fail("unexpected-exception")
             ELSE IF ~BlockCyclic(d)                         THEN Fail("cyclic-error-on-acyclic-design")
             ELSE IF D.bitacyclic                            THEN Fail("false-loop-reported-as-cycle")
             ELSE IF Stable(D, val)                          THEN Fail("raised-in-a-stable-state")
             ELSE IF \E b \in CombSteps(D) : InCycle(d, b) /\ ~Stable(D, val) /\ runs[b] < 2
                                                             THEN Fail("raised-without-iterating")
             ELSE phase' = "idle" /\ Adv /\ UNCHANGED <<val, nxt, done, ffdone, v0, runs>>

\* schedule-time refusal: acyclic-only schedulers must refuse block-level cyclic designs (and only
\* those); cycle-capable schedulers must not refuse a design whose cycles carry signals
SchedRaise == /\ Ev.k = "schedraise"
              /\ IF Ev.cls # "UpblkCyclicError"              THEN Fail("unexpected-exception")
                 ELSE IF ~BlockCyclic(d)                     THEN Fail("cyclic-error-on-acyclic-design")
                 ELSE IF T.cyccap /\ ~MustRefuse(d)          THEN Fail("cycle-capable-scheduler-refused")
                 ELSE Adv /\ UNCHANGED <<val, nxt, phase, done, ffdone, v0, runs>>

\* the schedule pass accepted the design
SchedOk == /\ Ev.k = "schedok"
           /\ IF BlockCyclic(d) /\ ~T.cyccap                 THEN Fail("cyclic-design-scheduled-by-acyclic-only-pass")
              ELSE IF NoVarCycleOf[d]                        THEN Fail("signal-free-cycle-scheduled")
              ELSE IF OnceCycleOf[d]                         THEN Fail("update-once-cycle-scheduled")
              ELSE Adv /\ UNCHANGED <<val, nxt, phase, done, ffdone, v0, runs>>

\* C11: evaluation never hangs (the harness watchdog fired)
Hang == Ev.k = "hang" /\ Fail("evaluation-hangs")

Known == {"hang", "init", "poke", "beval", "btick", "step", "eeval", "ff", "flip", "etick", "recheck",
          "raised", "schedraise", "schedok"}
Other == Ev.k \notin Known /\ Fail("unknown-event")

Finish == /\ ~fin /\ (err # "ok" \/ l > Len(T.ev))
          /\ PrintT(<<"V", tid, err, l>>)
          /\ fin' = TRUE /\ UNCHANGED <<tid, l, err, val, nxt, phase, done, ffdone, v0, runs>>

Next == \/ /\ ~fin /\ err = "ok" /\ l <= Len(T.ev)
           /\ (InitEv \/ Poke \/ Begin \/ Step \/ EndEval \/ FF \/ Flip \/ EndTick \/ Recheck
               \/ Raised \/ SchedRaise \/ SchedOk \/ Hang \/ Other)
        \/ Finish

Spec == Init /\ [][Next]_tvars
=============================================================================
