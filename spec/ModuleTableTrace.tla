------------------------- MODULE ModuleTableTrace -------------------------
(***************************************************************************)
(* Trace validation for C13.  One trace per design; the events are what    *)
(* harness/props/c13.py recorded from fresh translation subprocesses:      *)
(*                                                                         *)
(*  [k |-> "obs", seed, b, dg]      text digest seen for back end b under  *)
(*                                  PYTHONHASHSEED seed  (action Observe)  *)
(*  [k |-> "tab", b, dg]            the module table parsed from the text  *)
(*                                  with digest dg follows                 *)
(*  [k |-> "def", kind, name: Ident, dg, scopes: Seq([sc, ids: Seq(Ident)]),*)
(*                sites: Seq(module name)]          (action AddModule)     *)
(*                                  one emitted definition (module or      *)
(*                                  struct typedef) in text order, with    *)
(*                                  the identifiers declared per scope and *)
(*                                  the module names it instantiates       *)
(*  [k |-> "inst", path, mod, site, top: BOOLEAN,                          *)
(*                uses: Seq([kind, name, dg])]      (action AddInstance)   *)
(*                                  one component instance; `uses` are the *)
(*                                  definitions obtained by translating    *)
(*                                  that instance ALONE (first element:    *)
(*                                  its own module, name = ModName);       *)
(*                                  `site` is the module name written at   *)
(*                                  its instantiation site in the parent's *)
(*                                  alone-body                             *)
(*  [k |-> "close", b]              end of the table                       *)
(*  Ident := [s |-> string, c |-> character codes]                         *)
(*                                                                         *)
(* Every event action is total.  Unlike the exemplar, a failing clause     *)
(* does not stop the trace: it is appended to `errs` and the table keeps   *)
(* growing, so that one (possibly known) violation cannot hide another one *)
(* in the same design.  Finish prints <<"V", tid, first clause, l>> once   *)
(* and <<"R", tid, clause, l>> for every failure.                          *)
(***************************************************************************)
EXTENDS Naturals, Sequences, FiniteSets, TLC, Json, IOUtils

M == INSTANCE ModuleTable WITH NameFn <- "pymtl", BodyFn <- "distinct", MaxInst <- 0,
        Designs <- {}, Backends <- {}, Seeds <- {}, Digests <- {},
        seen <- <<>>, defs <- <<>>, insts <- {}
   \* only the pure operators of ModuleTable are used here

Input  == JsonDeserialize(IOEnv.VERIF_INPUT)
Traces == Input.traces

VARIABLES tid, l, errs, fin,
          seen,     \* back end -> digest | None                  (history variable of Deterministic)
          cur,      \* back end whose table is being read ("" before the first "tab")
          defs,     \* set of [kind, name, dg]: definitions emitted so far
          sites,    \* module names written at instantiation sites so far
          insts     \* set of [path, uses : set of [kind, name, dg]]
tvars == <<tid, l, errs, fin, seen, cur, defs, sites, insts>>

T  == Traces[tid]
Ev == T.ev[l]
ToSet(s) == {s[i] : i \in DOMAIN s}
BackendsOf(t) == {t.ev[i].b : i \in {j \in DOMAIN t.ev : t.ev[j].k = "obs"}}

Init == /\ tid \in 1 .. Len(Traces)
        /\ l = 1 /\ errs = <<>> /\ fin = FALSE
        /\ seen = [b \in BackendsOf(Traces[tid]) |-> M!None]
        /\ cur = "" /\ defs = {} /\ sites = {} /\ insts = {}

\* failing clauses of this event: those elements <<name, holds>> with holds = FALSE
Failing(cl) == LET bad == SelectSeq(cl, LAMBDA c : ~c[2])
               IN  [i \in DOMAIN bad |-> <<bad[i][1], l>>]
Step(cl) == /\ errs' = errs \o Failing(cl)
            /\ l' = l + 1
            /\ UNCHANGED <<tid, fin>>

\* ---- Observe(design, seed, backend, digest)
ObsEv ==
    /\ Ev.k = "obs"
    /\ Step(<< <<"Deterministic", M!ObserveOK(seen[Ev.b], Ev.dg)>> >>)
    /\ seen' = IF seen[Ev.b] = M!None THEN [seen EXCEPT ![Ev.b] = Ev.dg] ELSE seen
    /\ UNCHANGED <<cur, defs, sites, insts>>

TabEv ==
    /\ Ev.k = "tab"
    /\ Step(<< <<"table-of-unobserved-text", Ev.b \in DOMAIN seen /\ seen[Ev.b] = Ev.dg>> >>)
    /\ cur' = Ev.b /\ defs' = {} /\ sites' = {} /\ insts' = {}
    /\ UNCHANGED seen

\* ---- AddModule: one emitted definition
ScopeIds(i) == Ev.scopes[i].ids
DefEv ==
    /\ Ev.k = "def"
    /\ Step(<< <<"DefinedOnce", ~M!Defined(defs, Ev.kind, Ev.name.s)>>,
               <<"IdentLegal",  /\ M!LegalSyntax(Ev.name.c)
                                /\ \A i \in DOMAIN Ev.scopes : M!ScopeLegal(ScopeIds(i))>>,
               <<"IdentReserved", /\ ~M!Reserved(Ev.name.s)
                                  /\ \A i \in DOMAIN Ev.scopes : M!ScopeUnreserved(ScopeIds(i))>>,
               <<"IdentUnique", \A i \in DOMAIN Ev.scopes : M!ScopeUnique(ScopeIds(i))>> >>)
    /\ defs' = IF M!Defined(defs, Ev.kind, Ev.name.s) THEN defs    \* a front end keeps the first
               ELSE defs \cup {[kind |-> Ev.kind, name |-> Ev.name.s, dg |-> Ev.dg]}
    /\ sites' = sites \cup ToSet(Ev.sites)
    /\ UNCHANGED <<seen, cur, insts>>

\* ---- AddInstance: one component instance with its alone-translation
InstEv ==
    /\ Ev.k = "inst"
    /\ LET x == [path |-> Ev.path, uses |-> ToSet(Ev.uses)]
       IN  /\ Step(<< <<"NoAlias",     \A a \in insts : M!SharePair(a, x, "module")>>,
                      <<"NoAliasType", \A a \in insts : M!SharePair(a, x, "typedef")>>,
                      <<"UsesDefined", \A u \in x.uses : M!Defined(defs, u.kind, u.name)>>,
                      <<"DefIsBody",   \A u \in x.uses :
                                          M!Defined(defs, u.kind, u.name) => M!FaithfulInst(defs, [uses |-> {u}])>>,
                      <<"InstSiteName", Ev.top \/ Ev.site = Ev.mod>>,
                      <<"bad-trace-inst", Len(Ev.uses) >= 1 /\ Ev.uses[1].kind = "module"
                                          /\ Ev.uses[1].name = Ev.mod>> >>)
           /\ insts' = insts \cup {x}
    /\ UNCHANGED <<seen, cur, defs, sites>>

CloseEv ==
    /\ Ev.k = "close"
    /\ Step(<< <<"InstancesDefined", \A n \in sites : M!Defined(defs, "module", n)>>,
               <<"bad-trace-close", Ev.b = cur>> >>)
    /\ UNCHANGED <<seen, cur, defs, sites, insts>>

Other == /\ Ev.k \notin {"obs", "tab", "def", "inst", "close"}
         /\ Step(<< <<"unknown-event", FALSE>> >>)
         /\ UNCHANGED <<seen, cur, defs, sites, insts>>

Finish == /\ ~fin /\ l > Len(T.ev)
          /\ PrintT(<<"V", tid, IF errs = <<>> THEN "ok" ELSE errs[1][1],
                               IF errs = <<>> THEN l ELSE errs[1][2]>>)
          /\ \A i \in DOMAIN errs : PrintT(<<"R", tid, errs[i][1], errs[i][2]>>)
          /\ fin' = TRUE /\ UNCHANGED <<tid, l, errs, seen, cur, defs, sites, insts>>

Next == \/ /\ ~fin /\ l <= Len(T.ev)
           /\ (ObsEv \/ TabEv \/ DefEv \/ InstEv \/ CloseEv \/ Other)
        \/ Finish

Spec == Init /\ [][Next]_tvars
=============================================================================
