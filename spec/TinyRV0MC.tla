----------------------------- MODULE TinyRV0MC -----------------------------
(***************************************************************************)
(* Bounded instances of TinyRV0.tla for TLC (property C20, model side).    *)
(*                                                                         *)
(* Mode "mc":  every program of exactly PLen instructions over the          *)
(*   instruction universe Univ(Regs) (all ten instructions, every          *)
(*   register assignment over Regs, boundary immediates) is placed at the  *)
(*   reset vector, with every assignment of RegVals to the non-zero        *)
(*   registers of Regs, a three-word data window at 0x210 and a two-entry  *)
(*   mngr2proc queue; the machine runs for at most MaxSteps steps (or      *)
(*   until it stops: running off the program is "fetch-outside-image").    *)
(*   TLC checks the invariants / action properties of TinyRV0.tla.         *)
(* Mode "enc": prints <<"R", op, rd, rs1, rs2, imm, hi, lo>> for every     *)
(*   instruction of the larger universe EncUniv and checks the             *)
(*   Encode/Decode round trip; the harness compares the words with the     *)
(*   repository's assembler.                                               *)
(***************************************************************************)
EXTENDS TinyRV0, TLC

CONSTANTS Mode, Regs, PLen, MaxSteps

VARIABLE steps
mcvars == <<pc, R, M, mngr2proc, proc2mngr, status, steps>>

I(op, rd, rs1, rs2, imm) == [op |-> op, rd |-> rd, rs1 |-> rs1, rs2 |-> rs2, imm |-> imm]

UnivOver(rs, immI, immM, immB) ==
         {I(op, rd, a, b, 0)    : op \in {"add", "and", "sll", "srl"}, rd \in rs, a \in rs, b \in rs}
    \cup {I("addi", rd, a, 0, k) : rd \in rs, a \in rs, k \in immI}
    \cup {I("lw", rd, a, 0, k)   : rd \in rs, a \in rs, k \in immM}
    \cup {I("sw", 0, a, b, k)    : a \in rs, b \in rs, k \in immM}
    \cup {I("bne", 0, a, b, k)   : a \in rs, b \in rs, k \in immB}
    \cup {I("csrr", rd, 0, 0, CSR_MNGR2PROC) : rd \in rs}
    \cup {I("csrw", 0, a, 0, CSR_PROC2MNGR)  : a \in rs}

\* 4095 = -1, 2047 / 2048 = largest / smallest I-immediate, 4092 = -4, 8188 = -4 (13 bit)
Univ    == UnivOver(Regs, {1, 4095, 2047, 2048}, {0, 4, 4092}, {0, 4, 8, 8188})
EncUniv == UnivOver({0, 1, 2, 15, 16, 31}, {0, 1, 4095, 2047, 2048, 1365, 2730},
                    {0, 4, 4092, 2044, 2048, 31, 32, 1365}, {0, 4, 8, 8188, 4094, 4096, 2048, 2046, 30, 32})

RegVals == { <<0, 532>>,          \* 0x00000214: the middle word of the data window
             <<65535, 65535>>,    \* 0xffffffff
             <<32768, 33>> }      \* 0x80000021: shift amount 33 -> 1

TextBase == 128                   \* word index of 0x200
DataBase == 132                   \* word index of 0x210
Image(prog) ==
    [a \in (TextBase .. TextBase + PLen - 1) \cup (DataBase .. DataBase + 2) |->
        IF a < DataBase THEN Encode(prog[a - TextBase + 1])
        ELSE IF a = DataBase THEN <<57005, 48879>>       \* 0xdeadbeef
        ELSE IF a = DataBase + 1 THEN <<0, 532>>         \* a pointer to itself
        ELSE <<4660, 22136>>]                            \* 0x12345678
InQ == << <<0, 528>>, <<43981, 61185>> >>                \* 0x210, 0xabcdef01

Init ==
    IF Mode = "enc"
    THEN InitWith([a \in {TextBase} |-> WZero], <<>>, ZeroRegs) /\ steps = 0
    ELSE /\ \E prog \in [1 .. PLen -> Univ], rv \in [Regs \ {0} -> RegVals] :
              InitWith(Image(prog), InQ, [r \in 0 .. 31 |-> IF r \in DOMAIN rv THEN rv[r] ELSE WZero])
         /\ steps = 0

Pre  == Mode = "mc" /\ steps < MaxSteps
Post == steps' = steps + 1
DoCSRR == Pre /\ CSRR /\ Post
DoCSRW == Pre /\ CSRW /\ Post
DoADD == Pre /\ ADD /\ Post
DoAND == Pre /\ AND /\ Post
DoSLL == Pre /\ SLL /\ Post
DoSRL == Pre /\ SRL /\ Post
DoADDI == Pre /\ ADDI /\ Post
DoLW == Pre /\ LW /\ Post
DoSW == Pre /\ SW /\ Post
DoBNE == Pre /\ BNE /\ Post
DoUndefined == Pre /\ Undefined /\ Post
Next == DoCSRR \/ DoCSRW \/ DoADD \/ DoAND \/ DoSLL \/ DoSRL \/ DoADDI \/ DoLW \/ DoSW \/ DoBNE \/ DoUndefined

Spec == Init /\ [][Next]_mcvars

\* encoder/decoder agreement on the large universe (evaluated once)
RoundTrip == \A u \in EncUniv : Matching(Encode(u)) = {u.op} /\ Decode(Encode(u)) = u /\ IsW32(Encode(u))
ASSUME RoundTrip
ASSUME TablesDisjoint
ASSUME Mode = "enc" =>
         \A u \in EncUniv : PrintT(<<"R", u.op, u.rd, u.rs1, u.rs2, u.imm, Encode(u)[1], Encode(u)[2]>>)

\* W32 operators against their definition on numbers that fit TLC integers (evaluated once)
Small == {0, 1, 2, 3, 255, 32767, 32768, 65535}
Val(w) == w[1] * H + w[2]          \* only for hi < 2^14
ASSUME \A a \in Small, b \in Small :
         /\ WAdd(<<0, a>>, <<0, b>>) = OfNat(a + b)
         /\ WAdd(<<a % 16384, b>>, <<b % 16384, a>>) = OfNat(Val(<<a % 16384, b>>) + Val(<<b % 16384, a>>))
         /\ WAnd(<<a, b>>, <<b, a>>) = <<a & b, a & b>>
ASSUME \A a \in Small, b \in Small, s \in 0 .. 31 :
         /\ (s <= 30 => WShr(<<a % 16384, b>>, s) = OfNat(Val(<<a % 16384, b>>) \div 2^s))
         /\ (s <= 14 => WShl(<<0, b>>, s) = OfNat(b * 2^s))
         /\ WShl(WShr(<<a, b>>, s), s) = WAnd(<<a, b>>, WShl(<<65535, 65535>>, s))
         /\ WShr(WShl(<<a, b>>, s), s) = WAnd(<<a, b>>, WShr(<<65535, 65535>>, s))
         /\ IsW32(WShl(<<a, b>>, s)) /\ IsW32(WShr(<<a, b>>, s))
ASSUME /\ WAdd(<<65535, 65535>>, <<0, 1>>) = WZero           \* wraps modulo 2^32
       /\ WAdd(<<0, 65535>>, <<0, 1>>) = <<1, 0>>
       /\ Sext12(4095) = <<65535, 65535>> /\ Sext12(2048) = <<65535, 63488>> /\ Sext12(2047) = <<0, 2047>>
       /\ Sext13(8188) = <<65535, 65532>> /\ Sext13(4096) = <<65535, 61440>> /\ Sext13(4094) = <<0, 4094>>
       /\ WShl(<<32768, 33>>, 1) = <<0, 66>> /\ WShr(<<32768, 33>>, 1) = <<16384, 16>>
       /\ WShr(<<32768, 0>>, 31) = <<0, 1>> /\ WShl(<<0, 1>>, 31) = <<32768, 0>>
\* the worked bit patterns of the document's tables: opcode/funct fields
ASSUME /\ Encode(I("add", 0, 0, 0, 0))  = <<0, 51>>                  \* 0000000 ..... ..... 000 ..... 0110011
       /\ Encode(I("and", 0, 0, 0, 0))  = <<0, 28723>>               \* funct3 111
       /\ Encode(I("sll", 0, 0, 0, 0))  = <<0, 4147>>                \* funct3 001
       /\ Encode(I("srl", 0, 0, 0, 0))  = <<0, 20531>>               \* funct3 101
       /\ Encode(I("addi", 0, 0, 0, 0)) = <<0, 19>>                  \* 0010011
       /\ Encode(I("lw", 0, 0, 0, 0))   = <<0, 8195>>                \* 010 ..... 0000011
       /\ Encode(I("sw", 0, 0, 0, 0))   = <<0, 8227>>                \* 010 ..... 0100011
       /\ Encode(I("bne", 0, 0, 0, 0))  = <<0, 4195>>                \* 001 ..... 1100011
       /\ Encode(I("csrr", 0, 0, 0, CSR_MNGR2PROC)) = <<64512, 8307>> \* 0xFC0 ..... 010 ..... 1110011
       /\ Encode(I("csrw", 0, 0, 0, CSR_PROC2MNGR)) = <<31744, 4211>> \* 0x7C0 ..... 001 ..... 1110011
       /\ Encode(I("add", 31, 31, 31, 0)) = <<511, 36787>>            \* rd/rs1/rs2 field positions
=============================================================================
