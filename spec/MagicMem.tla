------------------------------ MODULE MagicMem ------------------------------
(***************************************************************************)
(* Magic memories (pymtl3/stdlib/mem/MagicMemoryCL.py, MagicMemoryFL.py,   *)
(* pymtl3/stdlib/stream/magic_memory.py), property C18: whatever the       *)
(* number of ports, latency, stall probability and seed, a magic memory    *)
(* behaves as ONE byte memory that applies the requests one after another; *)
(* every port sees its responses in request order.                         *)
(*                                                                         *)
(* State                                                                   *)
(*   mem       : 0..W-1 -> 0..255   the observed byte window               *)
(*   inflight  : Port -> Seq(Req)   sent, not yet processed                *)
(*   resp      : Port -> Seq(Resp)  processed, not yet delivered           *)
(* History variables (only read by the properties)                         *)
(*   sent, dlv : Port -> Seq(..)    everything sent / delivered so far     *)
(*   hist      : Seq([p, req, data]) the requests in processing order      *)
(*                                                                         *)
(* Actions Send(p, r), Process(p), Deliver(p).  There is NO timing          *)
(* parameter anywhere: latency / stalls of the implementation can only     *)
(* choose WHEN an enabled action happens.  That is the property.           *)
(*                                                                         *)
(* Req  == [t: type_, o: opaque, a: byte offset, n: len field (0 = whole   *)
(*          word), d: <<b0,b1,b2,b3>> little-endian data bytes]            *)
(* Resp == [t, o, data: Seq(byte)]   (read: the n bytes; amo: the old      *)
(*          word; write / inv / flush: <<>>)                               *)
(*                                                                         *)
(* TLC integers are 32-bit signed, so 32-bit words are never numbers here: *)
(* they are byte sequences, and arithmetic is done on two 16-bit limbs.    *)
(* Assumption (recorded in the evidence): AMOs are word-sized (n = 0).     *)
(***************************************************************************)
EXTENDS Naturals, Sequences, FiniteSets, Bitwise, SequencesExt

CONSTANTS NPorts,        \* ports are 0 .. NPorts-1
          W,             \* window size in bytes
          InitMem,       \* [0..W-1 -> 0..255]
          MaxReq,        \* requests per port (model checking bound)
          Menu(_)        \* Menu(p): the set of requests port p may send

VARIABLES mem, inflight, resp, sent, dlv, hist
vars == <<mem, inflight, resp, sent, dlv, hist>>

---------------------------------------------------------------------------
\* Message types (MemMsg.MemMsgType)
READ == 0  WRITE == 1
AMO_ADD == 3  AMO_AND == 4  AMO_OR == 5  AMO_SWAP == 6  AMO_MIN == 7
AMO_MINU == 8  AMO_MAX == 9  AMO_MAXU == 10  AMO_XOR == 11
INV == 14  FLUSH == 15
AmoTypes   == 3 .. 11
NoEffTypes == {INV, FLUSH}
KnownTypes == {READ, WRITE} \cup AmoTypes \cup NoEffTypes

WordBytes == 4
NBytes(n) == IF n = 0 THEN WordBytes ELSE n
IsAmo(t)  == t \in AmoTypes
NoEff(t)  == t \in NoEffTypes

---------------------------------------------------------------------------
\* Pure data path: little-endian bytes, 16-bit limbs

ReadBytes(m, a, n)  == [i \in 1 .. n |-> m[a + i - 1]]
WriteBytes(m, a, bs) ==
    [x \in DOMAIN m |-> IF x >= a /\ x < a + Len(bs) THEN bs[x - a + 1] ELSE m[x]]

Lo(b) == b[1] + 256 * b[2]
Hi(b) == b[3] + 256 * b[4]
Word(lo, hi) == <<lo % 256, lo \div 256, hi % 256, hi \div 256>>
ULess(x, y) == Hi(x) < Hi(y) \/ (Hi(x) = Hi(y) /\ Lo(x) < Lo(y))
SHi(b)      == (Hi(b) + 32768) % 65536          \* sign bit flipped: signed order as unsigned
SLess(x, y) == SHi(x) < SHi(y) \/ (SHi(x) = SHi(y) /\ Lo(x) < Lo(y))

\* f(old, arg) of the nine AMO kinds on 4-byte words
AmoFun(t, o, a) ==
    CASE t = AMO_ADD  -> LET s == Lo(o) + Lo(a)
                         IN  Word(s % 65536, (Hi(o) + Hi(a) + s \div 65536) % 65536)
      [] t = AMO_AND  -> [i \in 1 .. 4 |-> o[i] & a[i]]
      [] t = AMO_OR   -> [i \in 1 .. 4 |-> o[i] | a[i]]
      [] t = AMO_XOR  -> [i \in 1 .. 4 |-> o[i] ^^ a[i]]
      [] t = AMO_SWAP -> a
      [] t = AMO_MIN  -> IF SLess(o, a) THEN o ELSE a
      [] t = AMO_MINU -> IF ULess(a, o) THEN a ELSE o
      [] t = AMO_MAX  -> IF SLess(a, o) THEN o ELSE a
      [] t = AMO_MAXU -> IF ULess(o, a) THEN a ELSE o

\* a request the memory can serve inside the window
ReqOK(w, r) == /\ r.t \in KnownTypes
               /\ r.n \in 0 .. WordBytes - 1
               /\ IsAmo(r.t) => r.n = 0
               /\ Len(r.d) = WordBytes /\ \A i \in 1 .. WordBytes : r.d[i] \in 0 .. 255
               /\ NoEff(r.t) \/ r.a + NBytes(r.n) <= w

\* Effect of one request on a memory image: [mem |-> image after, data |-> bytes returned]
Apply(m, r) ==
    LET n == NBytes(r.n) IN
    CASE r.t = READ  -> [mem |-> m, data |-> ReadBytes(m, r.a, n)]
      [] r.t = WRITE -> [mem |-> WriteBytes(m, r.a, SubSeq(r.d, 1, n)), data |-> <<>>]
      [] IsAmo(r.t)  -> LET old == ReadBytes(m, r.a, WordBytes)
                        IN  [mem |-> WriteBytes(m, r.a, AmoFun(r.t, old, r.d)), data |-> old]
      [] OTHER       -> [mem |-> m, data |-> <<>>]

RespOf(r, data) == [t |-> r.t, o |-> r.o, data |-> data]

\* bytes of the window a request stores to
Stores(r) == IF r.t = WRITE THEN r.a .. r.a + NBytes(r.n) - 1
             ELSE IF IsAmo(r.t) THEN r.a .. r.a + WordBytes - 1 ELSE {}

\* the image after applying a processing history one request after another
SeqImage(m0, h) == FoldLeft(LAMBDA m, e : Apply(m, e.req).mem, m0, h)

---------------------------------------------------------------------------
\* State machine
Ports == 0 .. NPorts - 1

Init == /\ mem = InitMem
        /\ inflight = [p \in Ports |-> <<>>] /\ resp = [p \in Ports |-> <<>>]
        /\ sent = [p \in Ports |-> <<>>] /\ dlv = [p \in Ports |-> <<>>]
        /\ hist = <<>>

Send(p, r) == /\ Len(sent[p]) < MaxReq
              /\ inflight' = [inflight EXCEPT ![p] = Append(@, r)]
              /\ sent' = [sent EXCEPT ![p] = Append(@, r)]
              /\ UNCHANGED <<mem, resp, dlv, hist>>

Process(p) == /\ inflight[p] # <<>>
              /\ LET r == Head(inflight[p])
                     x == Apply(mem, r)
                 IN  /\ mem' = x.mem
                     /\ resp' = [resp EXCEPT ![p] = Append(@, RespOf(r, x.data))]
                     /\ hist' = Append(hist, [p |-> p, req |-> r, data |-> x.data])
              /\ inflight' = [inflight EXCEPT ![p] = Tail(@)]
              /\ UNCHANGED <<sent, dlv>>

Deliver(p) == /\ resp[p] # <<>>
              /\ dlv' = [dlv EXCEPT ![p] = Append(@, Head(resp[p]))]
              /\ resp' = [resp EXCEPT ![p] = Tail(@)]
              /\ UNCHANGED <<mem, inflight, sent, hist>>

Next == \E p \in Ports : \/ \E r \in Menu(p) : Send(p, r)
                         \/ Process(p)
                         \/ Deliver(p)

Spec == Init /\ [][Next]_vars

---------------------------------------------------------------------------
\* Properties (C18)

\* every request is in exactly one place; nothing is invented or lost
Conservation ==
    \A p \in Ports : Len(dlv[p]) + Len(resp[p]) + Len(inflight[p]) = Len(sent[p])

\* per port: the k-th response carries the type and opaque of the k-th request
ResponseOrder ==
    \A p \in Ports : LET rs == dlv[p] \o resp[p] IN
        \A k \in 1 .. Len(rs) : rs[k].t = sent[p][k].t /\ rs[k].o = sent[p][k].o

\* per port: requests are processed in the order they were sent
ProcessOrder ==
    \A p \in Ports : LET hp == SelectSeq(hist, LAMBDA e : e.p = p) IN
        /\ Len(hp) + Len(inflight[p]) = Len(sent[p])
        /\ \A k \in 1 .. Len(hp) : hp[k].req = sent[p][k]

\* the image is the sequential application of the processed requests, in processing order
SequentialImage == mem = SeqImage(InitMem, hist)

\* the value of byte x seen by the i-th processed request: the byte stored by the most recent
\* earlier processed request that stores to x (taken from the image right after it), else InitMem
LastStore(i, x) == {j \in 1 .. i - 1 : x \in Stores(hist[j].req) /\
                                     \A k \in j + 1 .. i - 1 : x \notin Stores(hist[k].req)}
SeenByte(i, x) == IF LastStore(i, x) = {} THEN InitMem[x]
                  ELSE LET j == CHOOSE j \in LastStore(i, x) : TRUE
                       IN  SeqImage(InitMem, SubSeq(hist, 1, j))[x]

\* every read returns, byte for byte, the most recent earlier processed store
ReadsSeeLatestStore ==
    \A i \in 1 .. Len(hist) : LET r == hist[i].req IN
        r.t = READ => /\ Len(hist[i].data) = NBytes(r.n)
                      /\ \A k \in 1 .. NBytes(r.n) : hist[i].data[k] = SeenByte(i, r.a + k - 1)

\* every AMO returns the old word and leaves f(old, data) in memory
AmoAtomic ==
    \A i \in 1 .. Len(hist) : LET r == hist[i].req IN
        IsAmo(r.t) =>
            /\ \A k \in 1 .. WordBytes : hist[i].data[k] = SeenByte(i, r.a + k - 1)
            /\ ReadBytes(SeqImage(InitMem, SubSeq(hist, 1, i)), r.a, WordBytes)
                   = AmoFun(r.t, hist[i].data, r.d)

\* the data of a response is the data its request got when it was processed
ResponsesFromHistory ==
    \A p \in Ports : LET hp == SelectSeq(hist, LAMBDA e : e.p = p)
                         rs == dlv[p] \o resp[p] IN
        /\ Len(rs) = Len(hp)
        /\ \A k \in 1 .. Len(rs) : rs[k].data = hp[k].data

TypeOK == /\ mem \in [0 .. W - 1 -> 0 .. 255]
          /\ \A p \in Ports : \A k \in 1 .. Len(sent[p]) : ReqOK(W, sent[p][k])
=============================================================================
