------------------------------- MODULE Cksum -------------------------------
(***************************************************************************)
(* The checksum of examples/ex02_cksum (property C20, second sentence):    *)
(* the "simplified Fletcher" sum of the header comment of ChecksumFL.py -- *)
(*                                                                         *)
(*     sum1 = 0; sum2 = 0                                                  *)
(*     for each 16-bit word w (index 0 first):                             *)
(*         sum1 = (sum1 + w)    mod 65536                                  *)
(*         sum2 = (sum2 + sum1) mod 65536                                  *)
(*     result = (sum2 << 16) | sum1          -- a 32-bit value             *)
(*                                                                         *)
(* written as a left fold.  The 32-bit result is the pair <<sum2, sum1>>   *)
(* (high half, low half), the same <<hi, lo>> convention as TinyRV0.tla.   *)
(* A message of the CL/RTL units carries eight words, word i in bits       *)
(* [16 i, 16 i + 16) of the 128-bit message (utils.words_to_b128).         *)
(***************************************************************************)
EXTENDS Naturals, Sequences, SequencesExt

CkStep(acc, w) == LET s1 == (acc[1] + w) % 65536
                  IN  <<s1, (acc[2] + s1) % 65536>>
CkFold(ws)     == FoldLeft(CkStep, <<0, 0>>, ws)        \* <<sum1, sum2>>
Cksum(ws)      == <<CkFold(ws)[2], CkFold(ws)[1]>>      \* <<hi, lo>> = <<sum2, sum1>>

\* closed form, used as a cross-check of the fold on bounded instances:
\*   sum1 = SUM w_i,  sum2 = SUM (n - i + 1) w_i   (mod 2^16, i = 1 .. n)
RECURSIVE WSum(_, _)
WSum(ws, k) == IF k = 0 THEN <<0, 0>>
               ELSE LET r == WSum(ws, k - 1)
                    IN  <<(r[1] + ws[k]) % 65536, (r[2] + (((Len(ws) - k + 1) * ws[k]) % 65536)) % 65536>>
Closed(ws)  == <<WSum(ws, Len(ws))[2], WSum(ws, Len(ws))[1]>>
=============================================================================
