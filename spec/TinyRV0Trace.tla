--------------------------- MODULE TinyRV0Trace ---------------------------
(***************************************************************************)
(* Trace validation for C20 (code -> spec).                                *)
(*                                                                         *)
(* A trace is ONE program (a memory image + the mngr2proc input queue)     *)
(* together with the observations recorded from running that program on    *)
(* the real ProcFL / ProcCL / ProcRTL under several timing configurations. *)
(* TLC executes the program with the actions of TinyRV0.tla -- one TLC     *)
(* state per instruction; the ISA is deterministic so the search is a      *)
(* line -- decoding the raw 32-bit words of the image (the assembler of    *)
(* the repository is not trusted), until the machine reaches a taken       *)
(* branch-to-itself (the halting idiom that ends every generated program). *)
(* Judge then compares every observation with the ISA state:               *)
(*   out  the sequence of words that reached the test sink must equal      *)
(*        proc2mngr (no word missing, changed, reordered or added);        *)
(*   mem  the words read back from the test memory over every loaded       *)
(*        section must equal M.                                            *)
(* and prints <<"V", tid, verdict, position>> plus one <<"T", id, k,       *)
(* clause, index, exp_hi, exp_lo>> line per failing observation k.         *)
(*                                                                         *)
(* Programs that leave the defined part of the ISA or the assumptions of   *)
(* the harness get a verdict starting with "bad-program" (a defect of the  *)
(* generator, never of pymtl3).                                            *)
(*                                                                         *)
(* Trace := [id, max, secs: Seq([base (word index), ro: BOOLEAN,           *)
(*                               w: Seq(<<hi, lo>>)]),                     *)
(*           inq: Seq(<<hi, lo>>), sent: <<hi, lo>>,                       *)
(*           obs: Seq([st: "ok" | "timeout" | "exception",                 *)
(*                     out: Seq(<<hi, lo>>), mem: Seq(Seq(<<hi, lo>>))])]  *)
(***************************************************************************)
EXTENDS TinyRV0, TLC, Json, IOUtils

Input  == JsonDeserialize(IOEnv.VERIF_INPUT)
Traces == Input.traces

VARIABLES tid, l, err, fin
tvars == <<pc, R, M, mngr2proc, proc2mngr, status, tid, l, err, fin>>

T == Traces[tid]

SecRange(s)   == s.base .. s.base + Len(s.w) - 1
SecIdx(t, a)  == CHOOSE k \in 1 .. Len(t.secs) : a \in SecRange(t.secs[k])
Mem0(t)       == [a \in UNION {SecRange(t.secs[k]) : k \in 1 .. Len(t.secs)} |->
                     LET s == t.secs[SecIdx(t, a)] IN s.w[a - s.base + 1]]
ReadOnly(t, a) == t.secs[SecIdx(t, a)].ro

Init == /\ tid \in 1 .. Len(Traces)
        /\ l = 0 /\ err = "ok" /\ fin = FALSE
        /\ InitWith(Mem0(Traces[tid]), Traces[tid].inq, ZeroRegs)

Go   == ~fin /\ err = "ok" /\ status = "run" /\ ~SelfLoop /\ l < T.max
Tick == l' = l + 1 /\ UNCHANGED <<tid, err, fin>>

tCSRR == Go /\ CSRR /\ Tick
tCSRW == Go /\ CSRW /\ Tick
tADD  == Go /\ ADD  /\ Tick
tAND  == Go /\ AND  /\ Tick
tSLL  == Go /\ SLL  /\ Tick
tSRL  == Go /\ SRL  /\ Tick
tADDI == Go /\ ADDI /\ Tick
tLW   == Go /\ LW   /\ Tick
tBNE  == Go /\ BNE  /\ Tick
tUndefined == Go /\ Undefined /\ Tick
\* harness assumption: the text section is never stored to (no self-modifying code)
tSW   == /\ Go /\ SW
         /\ l' = l + 1 /\ UNCHANGED <<tid, fin>>
         /\ LET a == EA(Sext12(ImmS(Inst)))
            IN  err' = IF EAProblem(a) = "none" /\ ReadOnly(T, ToNat(a) \div 4)
                       THEN "bad-program:store-into-read-only-section" ELSE err

---------------------------------------------------------------------------
\* Judging the observations against the final ISA state

MinLen(a, b) == IF Len(a) < Len(b) THEN Len(a) ELSE Len(b)
FirstDiff(a, b) ==      \* 0 if the common prefix agrees
    LET D == {i \in 1 .. MinLen(a, b) : a[i] # b[i]}
    IN  IF D = {} THEN 0 ELSE CHOOSE i \in D : \A j \in D : i <= j

MemDiffs(o) == {<<k, i>> \in UNION {{<<k, i>> : i \in 1 .. Len(T.secs[k].w)} : k \in 1 .. Len(T.secs)} :
                    \/ k > Len(o.mem) \/ i > Len(o.mem[k])
                    \/ o.mem[k][i] # M[T.secs[k].base + i - 1]}
FirstMem(o) == CHOOSE p \in MemDiffs(o) : \A q \in MemDiffs(o) :
                    p[1] < q[1] \/ (p[1] = q[1] /\ p[2] <= q[2])

\* <<clause, index, expected word>>
ObsVerdict(o) ==
    IF o.st # "ok" THEN <<o.st, Len(o.out), WZero>>
    ELSE LET d == FirstDiff(o.out, proc2mngr)
         IN  IF d # 0 THEN <<"out-word-differs", d, proc2mngr[d]>>
             ELSE IF Len(o.out) < Len(proc2mngr)
                  THEN <<"out-word-missing", Len(o.out) + 1, proc2mngr[Len(o.out) + 1]>>
             ELSE IF Len(o.out) > Len(proc2mngr)
                  THEN <<"out-extra-word", Len(proc2mngr) + 1, WZero>>
             ELSE IF MemDiffs(o) # {}
                  THEN LET p == FirstMem(o)
                       IN  <<"mem-word-differs", (T.secs[p[1]].base + p[2] - 1) * 4,
                             M[T.secs[p[1]].base + p[2] - 1]>>
             ELSE <<"ok", 0, WZero>>

SentinelOK == /\ proc2mngr # <<>>
              /\ proc2mngr[Len(proc2mngr)] = T.sent
              /\ \A i \in 1 .. Len(proc2mngr) - 1 : proc2mngr[i] # T.sent

ProgramVerdict ==
    IF err # "ok" THEN err
    ELSE IF status # "run" THEN "bad-program:" \o status
    ELSE IF ~SelfLoop THEN "bad-program:step-limit"
    ELSE IF ~SentinelOK THEN "bad-program:sentinel-not-last-and-unique"
    ELSE "ok"

Failing == {k \in 1 .. Len(T.obs) : ObsVerdict(T.obs[k])[1] # "ok"}
FirstFailing == CHOOSE k \in Failing : \A j \in Failing : k <= j

Judge ==
    /\ ~fin
    /\ ~Go
    /\ IF ProgramVerdict # "ok"
       THEN PrintT(<<"V", tid, ProgramVerdict, l>>)
       ELSE IF Failing = {}
       THEN PrintT(<<"V", tid, "ok", l>>)
       ELSE /\ \A k \in Failing :
                 LET v == ObsVerdict(T.obs[k])
                 IN  PrintT(<<"T", T.id, k, v[1], v[2], v[3][1], v[3][2]>>)
            /\ \A i \in 1 .. Len(proc2mngr) :
                 PrintT(<<"T", T.id, 0, "expected-out", i, proc2mngr[i][1], proc2mngr[i][2]>>)
            /\ PrintT(<<"V", tid, ObsVerdict(T.obs[FirstFailing])[1], FirstFailing>>)
    /\ fin' = TRUE
    /\ UNCHANGED <<pc, R, M, mngr2proc, proc2mngr, status, tid, l, err>>

Next == \/ tCSRR \/ tCSRW \/ tADD \/ tAND \/ tSLL \/ tSRL \/ tADDI \/ tLW \/ tSW \/ tBNE
        \/ tUndefined \/ Judge

Spec == Init /\ [][Next]_tvars
=============================================================================
