---------------------------- MODULE ModuleTable ----------------------------
(***************************************************************************)
(* Property C13: translation is deterministic and module names never alias *)
(* different hardware.                                                     *)
(*                                                                         *)
(* Two layers.                                                             *)
(*                                                                         *)
(* 1. Pure operators over a *module table* (what harness/modtable.py       *)
(*    extracts from emitted text): definitions (modules and struct         *)
(*    typedefs, each with the digest of its token sequence), declared      *)
(*    identifiers per scope, instantiation sites, and for every component  *)
(*    instance x of the design the definitions obtained by translating x   *)
(*    ALONE as the translation top (its own module and the typedefs that   *)
(*    module refers to).  ModuleTableTrace.tla applies them to recorded    *)
(*    tables.                                                              *)
(*                                                                         *)
(* 2. A small abstract state machine of the translator's component table   *)
(*    (RTLIRTranslator.translate_component: `if name not in components`,   *)
(*    i.e. the first writer wins) over a tiny universe of component kinds  *)
(*    (class object = name + definition site, typed parameter value), with *)
(*    selectable name functions.  TLC checks exhaustively that             *)
(*        - DefinedOnce, InstancesDefined hold by construction,            *)
(*        - Faithful <=> NoAlias   (NoAlias over alone-bodies is exactly   *)
(*          the condition under which every instance gets its own          *)
(*          hardware from a first-writer-wins table),                      *)
(*        - NoAlias is invariant iff the name function is injective on     *)
(*          bodies (the harness runs injective and non-injective           *)
(*          combinations and requires TLC's verdict to agree with Inj),    *)
(*        - Deterministic (history property of Observe).                   *)
(***************************************************************************)
EXTENDS Naturals, Sequences, FiniteSets, TLC

CONSTANTS NameFn,     \* "pymtl" | "qualified" | "notype" | "nosite"
          BodyFn,     \* "distinct" | "siteblind" | "typeblind" | "blind"
          MaxInst,    \* bound on instances per design
          Designs, Backends, Seeds, Digests

None == "none"

---------------------------------------------------------------------------
\* 1. Pure operators

\* IEEE 1800-2017 Annex B
Keywords == {
 "accept_on","alias","always","always_comb","always_ff","always_latch","and","assert","assign",
 "assume","automatic","before","begin","bind","bins","binsof","bit","break","buf","bufif0","bufif1",
 "byte","case","casex","casez","cell","chandle","checker","class","clocking","cmos","config","const",
 "constraint","context","continue","cover","covergroup","coverpoint","cross","deassign","default",
 "defparam","design","disable","dist","do","edge","else","end","endcase","endchecker","endclass",
 "endclocking","endconfig","endfunction","endgenerate","endgroup","endinterface","endmodule",
 "endpackage","endprimitive","endprogram","endproperty","endspecify","endsequence","endtable",
 "endtask","enum","event","eventually","expect","export","extends","extern","final","first_match",
 "for","force","foreach","forever","fork","forkjoin","function","generate","genvar","global","highz0",
 "highz1","if","iff","ifnone","ignore_bins","illegal_bins","implements","implies","import","incdir",
 "include","initial","inout","input","inside","instance","int","integer","interconnect","interface",
 "intersect","join","join_any","join_none","large","let","liblist","library","local","localparam",
 "logic","longint","macromodule","matches","medium","modport","module","nand","negedge","nettype",
 "new","nexttime","nmos","nor","noshowcancelled","not","notif0","notif1","null","or","output",
 "package","packed","parameter","pmos","posedge","primitive","priority","program","property",
 "protected","pull0","pull1","pulldown","pullup","pulsestyle_ondetect","pulsestyle_onevent","pure",
 "rand","randc","randcase","randsequence","rcmos","real","realtime","ref","reg","reject_on","release",
 "repeat","restrict","return","rnmos","rpmos","rtran","rtranif0","rtranif1","s_always","s_eventually",
 "s_nexttime","s_until","s_until_with","scalared","sequence","shortint","shortreal","showcancelled",
 "signed","small","soft","solve","specify","specparam","static","string","strong","strong0","strong1",
 "struct","super","supply0","supply1","sync_accept_on","sync_reject_on","table","tagged","task","this",
 "throughout","time","timeprecision","timeunit","tran","tranif0","tranif1","tri","tri0","tri1",
 "triand","trior","trireg","type","typedef","union","unique","unique0","unsigned","until",
 "until_with","untyped","use","uwire","var","vectored","virtual","void","wait","wait_order","wand",
 "weak","weak0","weak1","while","wildcard","wire","with","within","wor","xnor","xor" }

\* identifiers arrive as [s |-> string, c |-> sequence of character codes]
Letter(c) == (c >= 65 /\ c <= 90) \/ (c >= 97 /\ c <= 122) \/ c = 95
IdChar(c) == Letter(c) \/ (c >= 48 /\ c <= 57) \/ c = 36
LegalSyntax(cs) == /\ Len(cs) >= 1
                   /\ Letter(cs[1])
                   /\ \A i \in 2 .. Len(cs) : IdChar(cs[i])
Reserved(s)   == s \in Keywords
LegalIdent(x) == LegalSyntax(x.c) /\ ~Reserved(x.s)
UniqueSeq(q)  == Cardinality({q[i] : i \in DOMAIN q}) = Len(q)

\* a scope is a sequence of identifiers
ScopeLegal(ids)    == \A i \in DOMAIN ids : LegalSyntax(ids[i].c)
ScopeUnreserved(ids) == \A i \in DOMAIN ids : ~Reserved(ids[i].s)
ScopeUnique(ids)   == UniqueSeq([i \in DOMAIN ids |-> ids[i].s])
IdentLegalUniqueScope(ids) == ScopeLegal(ids) /\ ScopeUnreserved(ids) /\ ScopeUnique(ids)

\* An instance record carries  uses : set of [kind, name, dg]  -- the definitions obtained by
\* translating the instance alone (kind "module": its own module, name = ModName(x), dg = Body(x);
\* kind "typedef": the struct typedefs the module refers to).
SharePair(a, b, kind) ==
    \A u \in a.uses, v \in b.uses :
        (u.kind = kind /\ v.kind = kind /\ u.name = v.name) => u.dg = v.dg
NoAliasOn(I, kind) == \A a, b \in I : SharePair(a, b, kind)

\* defs : set of [kind, name, dg] (the emitted definitions)
Defined(D, kind, name) == \E d \in D : d.kind = kind /\ d.name = name
FaithfulInst(D, x) == \A u \in x.uses : \E d \in D : d.kind = u.kind /\ d.name = u.name /\ d.dg = u.dg

\* Deterministic: Observe is enabled iff nothing or the same digest was seen
ObserveOK(s, dg) == s \in {None, dg}

ASSUME /\ LegalSyntax(<<97, 95, 49, 36>>)          \* a_1$
       /\ ~LegalSyntax(<<49, 97>>)                  \* 1a
       /\ ~LegalSyntax(<<97, 45, 49>>)              \* a-1
       /\ ~LegalSyntax(<<>>)
       /\ Reserved("logic") /\ Reserved("let") /\ ~Reserved("in_")
       /\ UniqueSeq(<<"a", "b">>) /\ ~UniqueSeq(<<"a", "b", "a">>)

---------------------------------------------------------------------------
\* 2. Abstract translator table

\* a class object is (name, definition site); the parameter is (printed value, type)
Classes == { [name |-> "Inner", site |-> 1], [name |-> "Inner", site |-> 2],
             [name |-> "Other", site |-> 1] }
Params  == { [v |-> "1", t |-> "int"], [v |-> "1", t |-> "str"], [v |-> "2", t |-> "int"] }
KindsU  == { [cls |-> c, par |-> p] : c \in Classes, p \in Params }

Body(k) == CASE BodyFn = "distinct"  -> <<k.cls.name, k.cls.site, k.par.v, k.par.t>>
             [] BodyFn = "siteblind" -> <<k.cls.name, 0,          k.par.v, k.par.t>>
             [] BodyFn = "typeblind" -> <<k.cls.name, k.cls.site, k.par.v, "">>
             [] BodyFn = "blind"     -> <<k.cls.name, 0,          k.par.v, "">>

\* "pymtl": class __name__ + str(parameter)  (get_component_full_name)
Name(k) == CASE NameFn = "pymtl"     -> <<k.cls.name, 0,          k.par.v, "">>
             [] NameFn = "qualified" -> <<k.cls.name, k.cls.site, k.par.v, k.par.t>>
             [] NameFn = "notype"    -> <<k.cls.name, k.cls.site, k.par.v, "">>
             [] NameFn = "nosite"    -> <<k.cls.name, 0,          k.par.v, k.par.t>>

Inj == \A k1, k2 \in KindsU : Name(k1) = Name(k2) => Body(k1) = Body(k2)
ASSUME PrintT(<<"R", "inj", NameFn, BodyFn, Inj>>)

VARIABLES seen,    \* [Designs -> [Backends -> Digests \cup {None}]]
          defs,    \* sequence of [name, body]: the emitted definitions, in emission order
          insts    \* set of [id, mod, body]: instances with their alone-body
vars == <<seen, defs, insts>>

DefNames == {defs[i].name : i \in DOMAIN defs}
Def(n)   == defs[CHOOSE i \in DOMAIN defs : defs[i].name = n]

Init == /\ seen = [d \in Designs |-> [b \in Backends |-> None]]
        /\ defs = <<>>
        /\ insts = {}

NewInst(k) == [id |-> Cardinality(insts) + 1, mod |-> Name(k), body |-> Body(k)]

\* the translator reaches an instance whose module name is new: the module is emitted
AddModule(k) == /\ Cardinality(insts) < MaxInst
                /\ Name(k) \notin DefNames
                /\ defs' = Append(defs, [name |-> Name(k), body |-> Body(k)])
                /\ insts' = insts \cup {NewInst(k)}
                /\ UNCHANGED seen

\* ... whose module name is already in the table: the existing definition is used
Reuse(k) == /\ Cardinality(insts) < MaxInst
            /\ Name(k) \in DefNames
            /\ insts' = insts \cup {NewInst(k)}
            /\ UNCHANGED <<seen, defs>>

Observe(d, h, b, dg) == /\ ObserveOK(seen[d][b], dg)
                        /\ seen' = [seen EXCEPT ![d][b] = dg]
                        /\ UNCHANGED <<defs, insts>>

Next == \/ \E k \in KindsU : AddModule(k) \/ Reuse(k)
        \/ \E d \in Designs, h \in Seeds, b \in Backends, dg \in Digests : Observe(d, h, b, dg)

Spec == Init /\ [][Next]_vars

---------------------------------------------------------------------------
\* Properties

TypeOK == /\ seen \in [Designs -> [Backends -> Digests \cup {None}]]
          /\ \A x \in insts : x.id \in 1 .. MaxInst
DefinedOnce      == \A i, j \in DOMAIN defs : defs[i].name = defs[j].name => i = j
InstancesDefined == \A x \in insts : x.mod \in DefNames
NoAlias          == \A a, b \in insts : a.mod = b.mod => a.body = b.body
Faithful         == \A x \in insts : x.mod \in DefNames /\ Def(x.mod).body = x.body
FaithfulIffNoAlias == Faithful <=> NoAlias
InjImpliesNoAlias  == Inj => NoAlias
\* the same statement through the table-level operators used on real tables
AsUses(x)   == [uses |-> {[kind |-> "module", name |-> x.mod, dg |-> x.body]}]
NoAliasOps  == NoAlias <=> NoAliasOn({AsUses(x) : x \in insts}, "module")
FaithfulOps == Faithful <=>
                 \A x \in insts : FaithfulInst({[kind |-> "module", name |-> defs[i].name, dg |-> defs[i].body]
                                                  : i \in DOMAIN defs}, AsUses(x))
Deterministic == [][\A d \in Designs, b \in Backends :
                       seen[d][b] # None => seen'[d][b] = seen[d][b]]_vars
=============================================================================
