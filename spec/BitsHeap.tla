------------------------------ MODULE BitsHeap ------------------------------
(***************************************************************************)
(* Object identity for the pymtl3 `Bits` class (properties C04 / C05).     *)
(*                                                                         *)
(* BitsObj.tla says what ONE call returns.  A Bits object, however, is     *)
(* MUTABLE IN PLACE (x @= v,  x <<= v + x._flip(),  x[i] = v,              *)
(* x[lo:hi] = v), so "the operator returns the mathematically defined      *)
(* value" only means something if                                          *)
(*                                                                         *)
(*    (fresh)  every operation that returns a Bits value -- arithmetic,    *)
(*             bitwise, shift and comparison operators (also in their      *)
(*             `x += y` spelling, which Bits does not define in place),    *)
(*             ~x, x[i], x[lo:hi], clone(), deepcopy, Bits(n, x), concat,  *)
(*             zext, sext, trunc -- returns a NEW object, and              *)
(*    (frame)  a mutator changes the object it is applied to and no other. *)
(*                                                                         *)
(* The module is a state machine over a small heap: NVars program          *)
(* variables, each unbound or bound to its OWN object (a BitsObj state     *)
(* [w, d, nxt]).  Producer actions bind a variable r to the new object     *)
(* holding the result (`r = a + b`; the object r was bound to before is    *)
(* dropped); mutator actions act on the object of one variable t.  The     *)
(* outcome of every call is the one BitsObj.tla / BV.tla define for the    *)
(* CURRENT values of the operands, whatever happened to other objects      *)
(* before: results of earlier comparisons that were overwritten in place,  *)
(* slices that were modified, ...                                          *)
(*                                                                         *)
(* TLC checks (cfg): TypeOK; Frame (an action changes at most the object   *)
(* of its target variable); ErrorsChangeNothing; ResultIsOutcome (the new  *)
(* object holds exactly the outcome and has no pending value);             *)
(* NatSemantics (binary results equal the definition on the naturals --    *)
(* independent of BV.tla).                                                 *)
(*                                                                         *)
(* spec -> code: the harness (harness/bitsobj_lib.py heap_walk /           *)
(* heap_simulate) replays TLC's behaviours on real objects, every object   *)
(* being the very object the real operation returned, and compares ALL     *)
(* variables after every action:                                           *)
(*   - the complete state graph (`-dump`, states identified by `heap`      *)
(*     alone through  VIEW heap) is covered by one continuous walk that    *)
(*     takes every transition at least once;                               *)
(*   - `-simulate` behaviours for a larger configuration.                  *)
(* Every action carries the flag e ("the call raises") as its last         *)
(* parameter so that the outcome is part of the edge label.                *)
(* code -> spec: BitsObjTrace.tla validates logged operation sequences     *)
(* over several live objects with the same two rules.                      *)
(***************************************************************************)
EXTENDS Integers, Sequences, FiniteSets, TLC

CONSTANTS NVars,    \* number of program variables
          Ws,       \* widths offered to the constructor
          WMax,     \* no object wider than this is created (concat / zext / sext stop there)
          INeg,     \* int literals range over -INeg .. IPos
          IPos,
          Ops,      \* binary operators between two objects
          IOps,     \* binary operators between an object and an int literal (forward and reflected)
          Acts,     \* enabled action families
          DetOnly   \* TRUE: only calls with exactly one admitted outcome (for `-simulate`: a behaviour then
                    \* determines what the real call must do)

VARIABLES heap,     \* [Vars -> object state | Unbound]
          res       \* what the last action did: [act, tgt, out, op, x, y, w]
vars == <<heap, res>>

O == INSTANCE BitsObj WITH VWs <- Ws, IMax <- 0, Acts <- {}, st <- 0, res <- 0
B == INSTANCE BV WITH LB <- 15

Vars     == 1..NVars
Unbound  == [w |-> 0, d |-> <<>>, nxt |-> O!NoNext]
Bound(v) == heap[v].w > 0
Opd(v)   == O!SelfOp(heap[v])                       \* the object of v as an operand
Ix(i)    == O!IntOp(i < 0, B!FromNat(31, IF i < 0 THEN -i ELSE i))
Ints     == (-INeg)..IPos
Nat0(s)  == B!ToNat([w |-> s.w, d |-> s.d])         \* value of an object state (widths are tiny)
IntV(i)  == i

Producers == {"new", "newfrom", "un", "bin", "binint", "getbit", "getslice", "concat", "ext"}
Mutators  == {"assign", "nbassign", "flip", "setbit", "setslice"}

R(a, t, o, op, x, y, w) == [act |-> a, tgt |-> t, out |-> o, op |-> op, x |-> x, y |-> y, w |-> w]

\* r := the new object holding one admitted outcome (e: the call raises)
Produce(act, r, outs, e, op, x, y, w) ==
    /\ ~outs.any
    /\ DetOnly => Cardinality(outs.outs) = 1
    /\ \E o \in outs.outs :
          /\ (o.k = "err") = e
          /\ o.k = "ok" => o.w <= WMax
          /\ res'  = R(act, IF o.k = "ok" THEN r ELSE 0, o, op, x, y, w)
          /\ heap' = IF o.k = "ok" THEN [heap EXCEPT ![r] = O!MkState(O!BVof(o))] ELSE heap

\* the object of t changes as one admitted <<outcome, next state>> pair says
Mutate(act, t, pairs, e) ==
    /\ DetOnly => Cardinality(pairs) = 1
    /\ \E p \in pairs :
          /\ (p[1].k = "err") = e
          /\ res'  = R(act, IF p[1].k = "err" THEN 0 ELSE t, p[1], "", 0, 0, 0)
          /\ heap' = [heap EXCEPT ![t] = p[2]]

---------------------------------------------------------------------------
\* argument domains relative to the width w of the object concerned: every valid argument, and a few
\* invalid ones of each kind (so that raising calls do not swamp the simulated behaviours)
IdxFor(w)   == (-1)..w
PairsFor(w) == {<<lo, hi>> \in (0..(w - 1)) \X (1..w) : lo < hi}
               \cup {<<0, 0>>, <<0, w + 1>>, <<-1, w>>, <<w, w>>, <<w, w + 1>>, <<w - 1, 0>>}
IntsFor(w)  == {i \in Ints : i <= 2^w}
W(v)        == heap[v].w

---------------------------------------------------------------------------
\* producers

New(r, w, i, e) ==                                  \* r = Bits(w, i)
    /\ "new" \in Acts /\ i \in IntsFor(w)
    /\ \E p \in O!NewOuts(w, Ix(i), FALSE) :
          /\ (p[1].k = "err") = e
          /\ res'  = R("new", IF e THEN 0 ELSE r, p[1], "", 0, 0, 0)
          /\ heap' = IF e THEN heap ELSE [heap EXCEPT ![r] = p[2]]

NewFrom(r, a, w, e) ==                              \* r = Bits(w, a)      (constructor from a Bits object)
    /\ "newfrom" \in Acts /\ Bound(a)
    /\ \E p \in O!NewOuts(w, Opd(a), FALSE) :
          /\ (p[1].k = "err") = e
          /\ res'  = R("newfrom", IF e THEN 0 ELSE r, p[1], "", 0, 0, 0)
          /\ heap' = IF e THEN heap ELSE [heap EXCEPT ![r] = p[2]]

Un(op, r, a, e) ==                                  \* r = ~a | a.clone() | deepcopy(a)
    /\ "un" \in Acts /\ Bound(a)
    /\ Produce("un", r, O!UnOuts(op, Opd(a)), e, op, Nat0(heap[a]), 0, heap[a].w)

Bin(op, r, a, b, e) ==                              \* r = a op b
    /\ "bin" \in Acts /\ Bound(a) /\ Bound(b)
    /\ Produce("bin", r, O!BinOuts(op, FALSE, Opd(a), Opd(b)), e, op, Nat0(heap[a]), Nat0(heap[b]), heap[a].w)

BinInt(op, refl, r, a, i, e) ==                     \* r = a op i   |   r = i op a
    /\ "binint" \in Acts /\ Bound(a) /\ i \in IntsFor(W(a))
    /\ Produce("binint", r, O!BinOuts(op, refl, Opd(a), Ix(i)), e, op,
               IF refl THEN i ELSE Nat0(heap[a]), IF refl THEN Nat0(heap[a]) ELSE i, heap[a].w)

GetBit(r, a, i, e) ==                               \* r = a[i]
    /\ "getbit" \in Acts /\ Bound(a) /\ i \in IdxFor(W(a))
    /\ Produce("getbit", r, O!GetBitOuts(Opd(a), i), e, "", 0, 0, 0)

GetSlice(r, a, lo, hi, e) ==                        \* r = a[lo:hi]
    /\ "getslice" \in Acts /\ Bound(a) /\ <<lo, hi>> \in PairsFor(W(a))
    /\ Produce("getslice", r, O!GetSliceOuts(Opd(a), <<lo>>, <<hi>>, O!None), e, "", 0, 0, 0)

Concat(r, a, b, e) ==                               \* r = concat(a, b)
    /\ "concat" \in Acts /\ Bound(a) /\ Bound(b)
    /\ Produce("concat", r, O!ConcatOuts(<<Opd(a), Opd(b)>>), e, "", 0, 0, 0)

Ext(op, r, a, n, e) ==                              \* r = zext(a, n) | sext(a, n) | trunc(a, n)
    /\ "ext" \in Acts /\ Bound(a)
    /\ Produce("ext", r, CASE op = "zext"  -> O!ZextOuts(Opd(a), n)
                           [] op = "sext"  -> O!SextOuts(Opd(a), n)
                           [] op = "trunc" -> O!TruncOuts(Opd(a), n), e, "", 0, 0, 0)

---------------------------------------------------------------------------
\* mutators

Assign(t, a, e)      == "assign" \in Acts /\ Bound(t) /\ Bound(a)
                        /\ Mutate("assign", t, O!AssignOuts(heap[t], Opd(a)), e)            \* t @= a
AssignInt(t, i, e)   == "assign" \in Acts /\ Bound(t) /\ i \in IntsFor(W(t))
                        /\ Mutate("assign", t, O!AssignOuts(heap[t], Ix(i)), e)             \* t @= i
NbAssign(t, a, e)    == "nbassign" \in Acts /\ Bound(t) /\ Bound(a)
                        /\ Mutate("nbassign", t, O!NbAssignOuts(heap[t], Opd(a)), e)        \* t <<= a
NbAssignInt(t, i, e) == "nbassign" \in Acts /\ Bound(t) /\ i \in IntsFor(W(t))
                        /\ Mutate("nbassign", t, O!NbAssignOuts(heap[t], Ix(i)), e)         \* t <<= i
Flip(t, e)           == "flip" \in Acts /\ Bound(t)
                        /\ Mutate("flip", t, O!FlipOuts(heap[t]), e)                        \* t._flip()
SetBit(t, i, a, e)   == "setbit" \in Acts /\ Bound(t) /\ Bound(a) /\ i \in IdxFor(W(t))
                        /\ Mutate("setbit", t, O!SetBitOuts(heap[t], i, Opd(a)), e)         \* t[i] = a
SetBitInt(t, i, v, e) == "setbit" \in Acts /\ Bound(t) /\ i \in IdxFor(W(t))
                        /\ Mutate("setbit", t, O!SetBitOuts(heap[t], i, Ix(v)), e)          \* t[i] = v
SetSlice(t, lo, hi, a, e) ==
                        "setslice" \in Acts /\ Bound(t) /\ Bound(a) /\ <<lo, hi>> \in PairsFor(W(t))
                        /\ Mutate("setslice", t, O!SetSliceOuts(heap[t], <<lo>>, <<hi>>, O!None, Opd(a)), e)

---------------------------------------------------------------------------

UnOps  == {"invert", "clone", "deepcopy"}
ExtOps == {"zext", "sext", "trunc"}

Init == /\ heap = [v \in Vars |-> IF v = 1 THEN O!MkState(B!Zero(CHOOSE w \in Ws : \A u \in Ws : w <= u)) ELSE Unbound]
        /\ res = R("init", 0, O!Unit, "", 0, 0, 0)

Next == \E e \in BOOLEAN :
        \/ \E r \in Vars, w \in Ws, i \in Ints : New(r, w, i, e)
        \/ \E r \in Vars, a \in Vars, w \in Ws : NewFrom(r, a, w, e)
        \/ \E op \in UnOps, r \in Vars, a \in Vars : Un(op, r, a, e)
        \/ \E op \in Ops, r \in Vars, a \in Vars, b \in Vars : Bin(op, r, a, b, e)
        \/ \E op \in IOps, refl \in BOOLEAN, r \in Vars, a \in Vars, i \in Ints : BinInt(op, refl, r, a, i, e)
        \/ \E r \in Vars, a \in Vars, i \in (-1)..WMax : GetBit(r, a, i, e)
        \/ \E r \in Vars, a \in Vars, lo \in (-1)..WMax, hi \in 0..(WMax + 1) : GetSlice(r, a, lo, hi, e)
        \/ \E r \in Vars, a \in Vars, b \in Vars : Concat(r, a, b, e)
        \/ \E op \in ExtOps, r \in Vars, a \in Vars, n \in 1..WMax : Ext(op, r, a, n, e)
        \/ \E t \in Vars, a \in Vars : Assign(t, a, e)
        \/ \E t \in Vars, i \in Ints : AssignInt(t, i, e)
        \/ \E t \in Vars, a \in Vars : NbAssign(t, a, e)
        \/ \E t \in Vars, i \in Ints : NbAssignInt(t, i, e)
        \/ \E t \in Vars : Flip(t, e)
        \/ \E t \in Vars, i \in (-1)..WMax, a \in Vars : SetBit(t, i, a, e)
        \/ \E t \in Vars, i \in (-1)..WMax, v \in (-1)..2 : SetBitInt(t, i, v, e)
        \/ \E t \in Vars, lo \in (-1)..WMax, hi \in 0..(WMax + 1), a \in Vars : SetSlice(t, lo, hi, a, e)

Spec == Init /\ [][Next]_vars

\* cfg:  VIEW HeapView  -- states are identified by the heap alone (res only reports the last action)
HeapView == heap

---------------------------------------------------------------------------
\* properties checked by TLC

ObjOK(s) == /\ s.w \in 1..WMax
            /\ B!IsBV([w |-> s.w, d |-> s.d])
            /\ s.nxt.some => B!IsBV([w |-> s.w, d |-> s.nxt.d])
TypeOK == \A v \in Vars : heap[v] = Unbound \/ ObjOK(heap[v])

\* (frame) nothing but the object of the target variable changes
Frame == [][\A v \in Vars : v # res'.tgt => heap'[v] = heap[v]]_vars
\* a call that raises changes nothing at all
ErrorsChangeNothing == [][res'.out.k = "err" => heap' = heap]_vars
\* (fresh) the variable is bound to an object that holds exactly the outcome and has no pending value,
\* whatever it was bound to before
ResultIsOutcome ==
    [][(res'.act \in Producers \ {"new", "newfrom"} /\ res'.tgt # 0)
          => heap'[res'.tgt] = O!MkState(O!BVof(res'.out))]_vars
NewHasNoPending == [][(res'.act \in {"new", "newfrom"} /\ res'.tgt # 0) => ~heap'[res'.tgt].nxt.some]_vars
\* a mutator never changes the width; <<= never changes the visible value
WidthStable  == [][(res'.act \in Mutators /\ res'.tgt # 0) => heap'[res'.tgt].w = heap[res'.tgt].w]_vars
NbInvisible  == [][(res'.act = "nbassign" /\ res'.tgt # 0) => heap'[res'.tgt].d = heap[res'.tgt].d]_vars

\* binary operators on the naturals (the definition, independent of BV.tla): operands x, y of width w
XB(x, i) == (x \div 2^i) % 2                       \* bit i of the natural x
NatOp(op, x, y, w) ==
    LET M == 2^w
    IN  CASE op = "add"      -> (x + y) % M
          [] op = "sub"      -> (x - y + M) % M
          [] op = "mul"      -> (x * y) % M
          [] op = "floordiv" -> x \div y
          [] op = "mod"      -> x % y
          [] op = "and"      -> LET f[i \in 0..w] == IF i = w THEN 0 ELSE 2 * f[i + 1] + XB(x, i) * XB(y, i) IN f[0]
          [] op = "or"       -> LET f[i \in 0..w] == IF i = w THEN 0 ELSE 2 * f[i + 1] + (IF XB(x, i) + XB(y, i) > 0 THEN 1 ELSE 0) IN f[0]
          [] op = "xor"      -> LET f[i \in 0..w] == IF i = w THEN 0 ELSE 2 * f[i + 1] + ((XB(x, i) + XB(y, i)) % 2) IN f[0]
          [] op = "lshift"   -> IF y >= w THEN 0 ELSE (x * 2^y) % M
          [] op = "rshift"   -> IF y >= w THEN 0 ELSE x \div 2^y
          [] op = "eq"       -> IF x = y THEN 1 ELSE 0
          [] op = "ne"       -> IF x # y THEN 1 ELSE 0
          [] op = "lt"       -> IF x < y THEN 1 ELSE 0
          [] op = "le"       -> IF x <= y THEN 1 ELSE 0
          [] op = "gt"       -> IF x > y THEN 1 ELSE 0
          [] op = "ge"       -> IF x >= y THEN 1 ELSE 0
NatSemantics ==
    [][(res'.act \in {"bin", "binint"} /\ res'.out.k = "ok")
          => /\ Nat0(heap'[res'.tgt]) = NatOp(res'.op, res'.x, res'.y, res'.w)
             /\ heap'[res'.tgt].w = IF res'.op \in O!Cmps THEN 1 ELSE res'.w]_vars
=============================================================================
