----------------------------- MODULE FifoTrace -----------------------------
(***************************************************************************)
(* Trace validation for C17: offer histories recorded from the real queue  *)
(* classes are checked to be behaviours of Fifo.tla.  One TLC run          *)
(* validates a batch of traces of queues of different kinds / capacities   *)
(* (variable `tid` picks the trace, `l` the position in it).  Every event  *)
(* action is total: a mismatch sets `err` to the name of the failing       *)
(* clause; Finish prints one verdict per trace.                            *)
(*                                                                         *)
(* Trace := [kind: "normal"|"pipe"|"bypass"|"bypass2chain", cap: Nat,       *)
(*           ev: Seq(Event)]                                               *)
(* kind "bypass2chain" (cap = 2) selects FifoChain.tla -- the series       *)
(* composition of two one-entry bypass queues, which is what               *)
(* enrdy_queues.BypassQueue2RTL implements -- as the model instead of      *)
(* Fifo.tla; its model state is the pair <<b1, b2>>.                       *)
(* Event := [k |-> "reset", c2]                                            *)
(*        | [k |-> "cycle",                                                *)
(*           eo, do : 0/1        offers of producer / consumer             *)
(*           m      : Int        offered message (serial number) if eo     *)
(*           er, dr : 0/1/2      enqueue ready, dequeue ready/valid as     *)
(*                               driven by the queue (2 = the interface    *)
(*                               does not expose it in this cycle)         *)
(*           ex, dx : 0/1        transfer happened on the enq / deq side   *)
(*           dm     : Int        message on the dequeue port (-1: none     *)
(*                               visible: dr # 1, or a CL queue without a  *)
(*                               transfer)                                 *)
(*           c, c2  : Int        occupancy before / after the clock edge   *)
(*                               (-1 = not observable)                     *)
(*           bad    : STRING     "" or a protocol problem seen by the      *)
(*                               driver (rdy withdrawn after en)           *)
(*           pk     : <<>> or <<eb, db, rdy, msg>>  CL queues: peek.rdy(), *)
(*                               peek() observed by a third block that ran *)
(*                               after the producer (eb=1) / consumer      *)
(*                               (db=1) block of the same cycle            *)
(*           st     : <<>> or <<n1, n2>>  occupancy of the two stages of a *)
(*                               chain after the clock edge ]              *)
(***************************************************************************)
EXTENDS Integers, Sequences, FiniteSets, TLC, Json, IOUtils

F == INSTANCE Fifo WITH Kind <- "normal", Cap <- 1, Msgs <- {}, MaxHist <- 0,
                        q <- <<>>, out <- <<>>, accepted <- <<>>, delivered <- <<>>
C == INSTANCE FifoChain WITH Msgs <- {}, MaxHist <- 0,
                             b1 <- <<>>, b2 <- <<>>, out <- <<>>, accepted <- <<>>, delivered <- <<>>
   \* only the pure operators parameterised by (kind, cap) / (s1, s2) are used here

\* the model and its state: the contents q for the kinds of Fifo.tla, <<b1, b2>> for the chain
ChainKind  == "bypass2chain"
IsChain(k) == k = ChainKind
InitSt(k)  == IF IsChain(k) THEN << <<>>, <<>> >> ELSE <<>>
Contents(k, st) == IF IsChain(k) THEN C!Contents(st[1], st[2]) ELSE st
Exp(k, c, st, eo, m, do) == IF IsChain(k) THEN C!Outputs(st[1], st[2], eo, m, do)
                                          ELSE F!Outputs(k, c, st, eo, m, do)
NextSt(k, c, st, eo, m, do) == IF IsChain(k) THEN C!NextSt(st[1], st[2], eo, m, do)
                                             ELSE F!NextQ(k, c, st, eo, m, do)

Input  == JsonDeserialize(IOEnv.VERIF_INPUT)
Traces == Input.traces

VARIABLES tid, l, err, fin, q, nacc, ndel
tvars == <<tid, l, err, fin, q, nacc, ndel>>

T  == Traces[tid]
Ev == T.ev[l]
B(x) == x = 1
Range(s) == {s[i] : i \in DOMAIN s}

Init == /\ tid \in 1 .. Len(Traces)
        /\ l = 1 /\ err = "ok" /\ fin = FALSE
        /\ q = InitSt(Traces[tid].kind) /\ nacc = 0 /\ ndel = 0

Fail(c) == err' = c /\ UNCHANGED <<tid, l, fin, q, nacc, ndel>>

ResetEv ==
    /\ Ev.k = "reset"
    /\ IF Ev.c2 # -1 /\ Ev.c2 # 0 THEN Fail("reset-does-not-empty")
       ELSE /\ q' = InitSt(T.kind) /\ l' = l + 1 /\ UNCHANGED <<tid, err, fin, nacc, ndel>>

\* contents seen by the CL observer block
PeekView(s, m, ex, dx, eb, db) ==
    LET a == IF eb /\ ex THEN Append(s, m) ELSE s
    IN  IF db /\ dx /\ Len(a) > 0 THEN Tail(a) ELSE a

CycleEv ==
    /\ Ev.k = "cycle"
    /\ LET k   == T.kind
           c   == T.cap
           eo  == B(Ev.eo)
           do  == B(Ev.do)
           m   == Ev.m
           cq  == Contents(k, q)
           exp == Exp(k, c, q, eo, m, do)
           er  == exp.enq_rdy
           dr  == exp.deq_rdy
           ex  == exp.enq_xfer
           dx  == exp.deq_xfer
           q2  == NextSt(k, c, q, eo, m, do)
           pv  == PeekView(cq, m, ex, dx, B(Ev.pk[1]), B(Ev.pk[2]))
       IN  IF k \notin (F!Kinds \cup {ChainKind}) \/ c < 1 \/ (IsChain(k) /\ c # C!Cap)
              \/ Ev.er \notin {0, 1, 2} \/ Ev.dr \notin {0, 1, 2}
                                                       THEN Fail("bad-trace")
           ELSE IF Ev.bad # ""                          THEN Fail(Ev.bad)
           ELSE IF Ev.c > c \/ Ev.c2 > c                THEN Fail("count-exceeds-capacity")
           ELSE IF Ev.c # -1 /\ Ev.c # Len(cq)          THEN Fail("wrong-count")
           ELSE IF Ev.er # 2 /\ B(Ev.er) # er           THEN Fail(IF er THEN "enq-rdy-low-but-kind-says-ready"
                                                                        ELSE "enq-rdy-high-but-kind-says-not-ready")
           ELSE IF Ev.dr # 2 /\ B(Ev.dr) # dr           THEN Fail(IF dr THEN "deq-rdy-low-but-kind-says-ready"
                                                                        ELSE "deq-rdy-high-but-kind-says-not-ready")
           ELSE IF B(Ev.ex) # ex                        THEN Fail("enq-transfer-mismatch")
           ELSE IF B(Ev.dx) # dx                        THEN Fail(IF dx THEN "message-not-delivered"
                                                                        ELSE "delivery-without-offer-or-message")
           ELSE IF dx /\ Ev.dm = -1                     THEN Fail("delivered-message-missing")
           ELSE IF Ev.dm # -1 /\ exp.deq_msg # <<Ev.dm>> THEN Fail(IF Ev.dm \in Range(cq)
                                                                  THEN "wrong-message-out-of-order"
                                                                  ELSE "wrong-message-not-in-queue")
           ELSE IF Ev.c2 # -1 /\ Ev.c2 # exp.count2     THEN Fail("wrong-count-after-edge")
           ELSE IF IsChain(k) /\ Len(Ev.st) = 2 /\ Ev.st # exp.st2
                                                        THEN Fail("wrong-stage-occupancy")
           ELSE IF Len(Ev.pk) = 4 /\ B(Ev.pk[3]) # (Len(pv) > 0)
                                                        THEN Fail("peek-rdy")
           ELSE IF Len(Ev.pk) = 4 /\ Len(pv) > 0 /\ Ev.pk[4] # Head(pv)
                                                        THEN Fail("peek-message")
           ELSE /\ q' = q2
                /\ nacc' = nacc + (IF ex THEN 1 ELSE 0)
                /\ ndel' = ndel + (IF dx THEN 1 ELSE 0)
                /\ l' = l + 1 /\ UNCHANGED <<tid, err, fin>>

Other == /\ Ev.k \notin {"reset", "cycle"} /\ Fail("unknown-event")

Finish == /\ ~fin /\ (err # "ok" \/ l > Len(T.ev))
          /\ PrintT(<<"V", tid, err, l>>)
          /\ PrintT(<<"T", tid, nacc, ndel>>)
          /\ fin' = TRUE /\ UNCHANGED <<tid, l, err, q, nacc, ndel>>

Next == \/ /\ ~fin /\ err = "ok" /\ l <= Len(T.ev)
           /\ (ResetEv \/ CycleEv \/ Other)
        \/ Finish

Spec == Init /\ [][Next]_tvars
=============================================================================
