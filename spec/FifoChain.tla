----------------------------- MODULE FifoChain -----------------------------
(***************************************************************************)
(* What pymtl3.stdlib.queues.enrdy_queues.BypassQueue2RTL actually is      *)
(* (property C17): two BypassQueue1RTL in series,                          *)
(*                                                                         *)
(*     enq ==> q1 ==> q2 ==> deq        s.q1.deq //= s.q2.enq              *)
(*                                                                         *)
(* each with an en/rdy receive port (enq: en in, rdy out) and an en/rdy    *)
(* send port (deq: en OUT, rdy in).  One BypassQueue1RTL with buffer s     *)
(* (<<>> or <<msg>>):                                                      *)
(*     enq.rdy    = ~full                                                  *)
(*     deq.en     = (enq.en | full) & deq.rdy                              *)
(*     deq.msg    = full ? buffer : enq.msg                                *)
(*     buffer.en  = enq.en & ~deq.en                                       *)
(*     full'      = (enq.en | full) & ~deq.en                              *)
(*                                                                         *)
(* State <<b1, b2>>.  ONE action per clock cycle, Cycle(eo, m, do), wires  *)
(* the two stages exactly as the component does and computes enq_rdy, the  *)
(* three transfers, the delivered message and the next state.              *)
(*                                                                         *)
(* The composition is a FIFO of capacity 2 with the bypass dequeue side,   *)
(* EXCEPT for one clause of the kind rule "enqueue iff not full": in the   *)
(* state b1 full / b2 empty (one message held) enq_rdy is low, because     *)
(* enq_rdy = ~q1.full looks at the first stage only.  Everything else the  *)
(* statement of C17 says is an invariant below; the deviating clause is    *)
(* the invariant EnqRdyIffNotFull, which TLC is EXPECTED to refute (the    *)
(* check asserts the counterexample state b1 full / b2 empty).             *)
(* EnqRdyExceptFinding pins enq_rdy down exactly, so the deviation is      *)
(* confined to that one state.                                             *)
(***************************************************************************)
EXTENDS Integers, Sequences

CONSTANTS Msgs,     \* message alphabet
          MaxHist   \* bound on the kept histories (see HistBound)

VARIABLES b1, b2, out, accepted, delivered
vars == <<b1, b2, out, accepted, delivered>>

---------------------------------------------------------------------------
\* One BypassQueue1RTL (s = its buffer: <<>> or <<msg>>)

Full1(s)               == Len(s) = 1
B1EnqRdy(s)            == ~Full1(s)
B1DeqEn(s, en, rdy)    == (en \/ Full1(s)) /\ rdy
B1DeqMsg(s, m)         == IF Full1(s) THEN s[1] ELSE m
B1Next(s, en, m, rdy)  ==
    LET den   == B1DeqEn(s, en, rdy)
        ben   == en /\ ~den                      \* buffer.en
        full2 == (en \/ Full1(s)) /\ ~den        \* full.in_
    IN  IF ~full2 THEN <<>> ELSE IF ben THEN <<m>> ELSE s

---------------------------------------------------------------------------
\* The series composition (pure, parameterised by the two buffers)

Cap == 2
Contents(s1, s2) == s2 \o s1                     \* head first
Count(s1, s2)    == Len(s1) + Len(s2)

EnqRdy(s1, s2)          == B1EnqRdy(s1)                         \* s.enq //= s.q1.enq
En1(s1, s2, eo)         == eo /\ EnqRdy(s1, s2)                 \* legal driver: en = offer & rdy
Rdy1(s2)                == B1EnqRdy(s2)                         \* q1.deq.rdy = q2.enq.rdy
En2(s1, s2, eo)         == B1DeqEn(s1, En1(s1, s2, eo), Rdy1(s2))   \* q1.deq.en = q2.enq.en
Msg2(s1, m)             == B1DeqMsg(s1, m)                      \* q1.deq.msg = q2.enq.msg
DeqVal(s1, s2, eo)      == B1DeqEn(s2, En2(s1, s2, eo), TRUE)   \* deq.en if the consumer is ready
DeqXfer(s1, s2, eo, do) == B1DeqEn(s2, En2(s1, s2, eo), do)     \* deq.en
DeqMsg(s1, s2, m)       == B1DeqMsg(s2, Msg2(s1, m))            \* deq.msg

Next1(s1, s2, eo, m)     == B1Next(s1, En1(s1, s2, eo), m, Rdy1(s2))
Next2(s1, s2, eo, m, do) == B1Next(s2, En2(s1, s2, eo), Msg2(s1, m), do)
NextSt(s1, s2, eo, m, do) == <<Next1(s1, s2, eo, m), Next2(s1, s2, eo, m, do)>>

\* same record as Fifo!Outputs, plus the occupancy of the two stages before (st) and after (st2)
\* the clock edge
Outputs(s1, s2, eo, m, do) ==
    LET n == NextSt(s1, s2, eo, m, do) IN
    [ enq_rdy  |-> EnqRdy(s1, s2),
      deq_rdy  |-> DeqVal(s1, s2, eo),
      enq_xfer |-> En1(s1, s2, eo),
      deq_xfer |-> DeqXfer(s1, s2, eo, do),
      count    |-> Count(s1, s2),
      count2   |-> Count(n[1], n[2]),
      deq_msg  |-> IF DeqVal(s1, s2, eo) THEN <<DeqMsg(s1, s2, m)>> ELSE <<>>,
      st       |-> <<Len(s1), Len(s2)>>,
      st2      |-> <<Len(n[1]), Len(n[2])>> ]

IdleOut == [ enq_rdy |-> TRUE, deq_rdy |-> FALSE, enq_xfer |-> FALSE, deq_xfer |-> FALSE,
             count |-> 0, count2 |-> 0, deq_msg |-> <<>>, st |-> <<0, 0>>, st2 |-> <<0, 0>> ]

---------------------------------------------------------------------------
\* State machine

Init == /\ b1 = <<>> /\ b2 = <<>> /\ out = IdleOut
        /\ accepted = <<>> /\ delivered = <<>>

Cycle(eo, m, do) ==
    /\ b1'  = Next1(b1, b2, eo, m)
    /\ b2'  = Next2(b1, b2, eo, m, do)
    /\ out' = Outputs(b1, b2, eo, m, do)
    /\ accepted'  = IF En1(b1, b2, eo) THEN Append(accepted, m) ELSE accepted
    /\ delivered' = IF DeqXfer(b1, b2, eo, do) THEN Append(delivered, DeqMsg(b1, b2, m))
                                               ELSE delivered

Reset == /\ b1' = <<>> /\ b2' = <<>> /\ out' = IdleOut
         /\ accepted' = <<>> /\ delivered' = <<>>

AnyMsg == CHOOSE x \in Msgs : TRUE
Next == \/ \E eo \in BOOLEAN :
              \E m \in (IF eo THEN Msgs ELSE {AnyMsg}), do \in BOOLEAN : Cycle(eo, m, do)
        \/ Reset

Spec == Init /\ [][Next]_vars

View      == <<b1, b2, out>>
HistBound == Len(accepted) <= MaxHist

---------------------------------------------------------------------------
\* Everything C17 says, except the clause that is the finding

Slot == {<<>>} \cup {<<x>> : x \in Msgs}

TypeOK == /\ b1 \in Slot /\ b2 \in Slot
          /\ out.count \in 0 .. Cap /\ out.count2 = Count(b1, b2)
          /\ out.st2 = <<Len(b1), Len(b2)>>

Bounded == Count(b1, b2) <= Cap

IsPrefix(a, b) == Len(a) <= Len(b) /\ \A i \in 1 .. Len(a) : a[i] = b[i]

\* nothing lost, duplicated, reordered or invented
DeliveredPrefix == IsPrefix(delivered, accepted)
Conservation    == accepted = delivered \o Contents(b1, b2)

\* dequeue side exactly as a bypass queue: valid iff not empty, or an enqueue happens this cycle
DeqSideExact ==
    /\ out.deq_rdy = (out.count # 0 \/ out.enq_xfer)
    /\ out.deq_xfer => out.deq_rdy

\* enqueue side: never ready when full, a transfer only when ready, and low ONLY when full or in
\* the finding state
EnqRdyExceptFinding ==
    /\ out.enq_rdy = ~(out.count = Cap \/ out.st = <<1, 0>>)
    /\ out.enq_xfer => out.enq_rdy
    /\ (out.count = Cap) => ~out.enq_rdy

CountExact ==
    out.count2 = out.count + (IF out.enq_xfer THEN 1 ELSE 0) - (IF out.deq_xfer THEN 1 ELSE 0)

\* per step: the delivered message is the oldest one held (or the bypassing one); nothing moves
\* without a transfer; the finding state lasts one cycle (the held message always moves on to b2
\* or out)
StepFifo == [][ LET c == Contents(b1, b2) IN
                /\ (out'.deq_xfer /\ c # <<>>) => (out'.deq_msg = <<Head(c)>>)
                /\ (out'.deq_xfer /\ c = <<>>) => (out'.enq_xfer /\ Contents(b1, b2)' = <<>>)
                /\ (~out'.deq_xfer /\ ~out'.enq_xfer /\ out'.count2 = Len(c)) => Contents(b1, b2)' = c
                /\ (b1 # <<>> /\ b2 = <<>>) => b1' = <<>>
              ]_vars

---------------------------------------------------------------------------
\* The finding: "enqueue iff not full" as a state predicate on the combinational output.
\* TLC must REFUTE this invariant, with b1 full and b2 empty in the last state.
EnqRdyIffNotFull == EnqRdy(b1, b2) = (Count(b1, b2) < Cap)
=============================================================================
