SPECIFICATION Spec
CONSTANTS Mode = "trace"
 MCLen = 1
 BVals = {0}
CHECK_DEADLOCK FALSE
