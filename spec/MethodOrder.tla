----------------------------- MODULE MethodOrder -----------------------------
(***************************************************************************)
(* C02, CL part: one evaluation cycle of a CL design whose update blocks    *)
(* invoke methods, under method-level ordering constraints.                 *)
(*                                                                         *)
(* A design descriptor X (JSON, written by harness/c02_cl.py from the same  *)
(* object that is pretty-printed as pymtl3 source):                         *)
(*   X.blocks  : Seq([name, once: BOOLEAN, ext: BOOLEAN, gl: BOOLEAN,       *)
(*                    net: BOOLEAN, calls: Seq(method),                     *)
(*                    rd: Seq(sig), wr: Seq(sig)])                          *)
(*       calls = the ACTUAL methods one execution of the block invokes, in  *)
(*       program order (the method at the end of the method net a caller    *)
(*       port is connected to; a pass-through method invokes its target).   *)
(*       ext = TRUE: not a block of the design but "the test bench calls    *)
(*       this top-level callee method" (open loop only).                    *)
(*       gl = TRUE: the block calls a blocking method (@blocking /          *)
(*       CalleeIfcFL / CallerIfcFL) itself; the simulator runs it inside a  *)
(*       greenlet behind a ticker function that takes the block's place in  *)
(*       the schedule.  The wrapping is TRANSPARENT for the order: every    *)
(*       constraint on the block is a constraint on its ticker, the ticker  *)
(*       runs the block body where it stands.  Every blocking method of a   *)
(*       descriptor returns immediately, so one call of the ticker is one   *)
(*       complete execution of the block (action Ticker below = Start of a  *)
(*       gl block; no suspended bodies in this model).                      *)
(*       net = TRUE: a net-propagation step (signals wr are connected to    *)
(*       signal rd): a step like a plain update block, no calls.            *)
(*   X.methods : Seq([name])                                                *)
(*   X.mm : M(x) <  M(y)    X.eq : M(x) == M(y)                             *)
(*   X.um : U(b) <  M(x)    X.mu : M(x) <  U(b)     X.uu : U(a) < U(b)      *)
(*                                                                         *)
(* MEANING of the constraints (what "honoured" means; events of one cycle   *)
(* are: block b starts, block b ends, method m is invoked by caller c):     *)
(*   ==        joins methods into classes; `<` is a strict order on methods *)
(*             and therefore transitive: MLt = the transitive closure of mm *)
(*             lifted to classes (a chain may pass through methods nobody   *)
(*             invokes).                                                    *)
(*   M(x)<M(y) no invocation of y' precedes an invocation of x' issued by a *)
(*             DIFFERENT caller, for all x' MLe x, y MLe y'.  (Inside one   *)
(*             block the order of the calls is the designer's program.)     *)
(*   U(b)<M(x) block b has ended before any other caller invokes x' (x MLe  *)
(*             x').                                                         *)
(*   M(x)<U(b) block b has not started when another caller invokes x'       *)
(*             (x' MLe x).                                                  *)
(*   U(a)<U(b) a has ended when b starts.                                   *)
(*   signals   the writer of a signal has ended when a reader starts, unless *)
(*             U(reader) < U(writer) is declared (bit-level detail is the   *)
(*             business of SimKernel.tla; here whole signals).              *)
(*   every block of the design runs exactly once per cycle.                 *)
(* LEFT OPEN (both orders admitted): two blocks related only through a      *)
(* chain U(a) < M(x) < ... < U(b) none of whose methods is invoked by any   *)
(* block -- no event of any cycle is ordered by it.                         *)
(*                                                                         *)
(* Der1 = the block-level relation these meanings induce (blocks are atomic *)
(* and sequential, an invocation happens inside its caller).  The machine   *)
(* below shows with TLC, for every descriptor of the model family:          *)
(*   mode "sched": every linear extension of Der1 honours every constraint  *)
(*                 at event level (Der1 is strong enough), never gets stuck *)
(*                 unless Der1 is cyclic;                                   *)
(*   mode "free":  an arbitrary block order honours every constraint at     *)
(*                 event level IFF it is a linear extension of Der1 (Der1   *)
(*                 is not stronger than the meaning), hence: a schedule     *)
(*                 exists IFF Der1 is acyclic; MustReject designs admit no  *)
(*                 behaviour;                                               *)
(*   mode "ol":    the open-loop mechanism of OpenLoopCLPass (a static      *)
(*                 schedule over blocks and top-level-method slots; a call  *)
(*                 of top.m runs the blocks up to m's slot, wrapping to the *)
(*                 next cycle if the slot is already behind) honours every  *)
(*                 constraint inside every cycle, whatever the test bench   *)
(*                 calls, for every linear extension of Der1 over blocks    *)
(*                 and slots.                                               *)
(* MethodOrderTrace.tla checks recorded executions of the real schedulers   *)
(* against the same event-level predicates.                                 *)
(***************************************************************************)
EXTENDS Naturals, Sequences, FiniteSets, Json, IOUtils, TLC

Input   == JsonDeserialize(IOEnv.VERIF_INPUT)
Designs == Input.designs

---------------------------------------------------------------------------
\* relations

RECURSIVE Warshall(_, _, _)
Warshall(Q, S, T) == IF T = {} THEN Q      \* (accumulating and TLCEval'd: TLC's set values are lazy)
                     ELSE LET n == CHOOSE x \in T : TRUE
                          IN  Warshall(TLCEval(Q \cup {p \in S \X S : <<p[1], n>> \in Q /\ <<n, p[2]>> \in Q}),
                                       S, T \ {n})
TC(R, S) == Warshall(TLCEval(R), S, S)     \* transitive closure of R over the node set S

Pairs(sq) == {<<sq[i][1], sq[i][2]>> : i \in DOMAIN sq}
SeqSet(sq) == {sq[i] : i \in DOMAIN sq}

AllBlocks(X)  == DOMAIN X.blocks
RealBlocks(X) == {b \in DOMAIN X.blocks : ~X.blocks[b].ext}
Bl(X, ol)     == IF ol THEN AllBlocks(X) ELSE RealBlocks(X)
Meths(X)      == DOMAIN X.methods
Calls(X, b)   == SeqSet(X.blocks[b].calls)
SigEdge(X, a, b) == SeqSet(X.blocks[a].wr) \cap SeqSet(X.blocks[b].rd) # {}

\* M(x) == M(y): equivalence classes (reflexive, symmetric, transitive)
SameRel(X) == TC(Pairs(X.eq) \cup {<<p[2], p[1]>> : p \in Pairs(X.eq)} \cup {<<m, m>> : m \in Meths(X)}, Meths(X))
\* strict order on methods: mm lifted to classes, closed under chains
MLtRel(X, S) == TC({p \in Meths(X) \X Meths(X) :
                      \E q \in Pairs(X.mm) : <<p[1], q[1]>> \in S /\ <<q[2], p[2]>> \in S}, Meths(X))
\* U(b) < M(m'): declared U(b) < M(x) and x MLe m'
UBeforeRel(X, le) == {p \in AllBlocks(X) \X Meths(X) : \E q \in Pairs(X.um) : q[1] = p[1] /\ <<q[2], p[2]>> \in le}
\* M(m') < U(b): declared M(x) < U(b) and m' MLe x
MBeforeRel(X, le) == {p \in Meths(X) \X AllBlocks(X) : \E q \in Pairs(X.mu) : q[2] = p[2] /\ <<p[1], q[1]>> \in le}
\* the block-level relation the meanings induce (ol: the test bench's calls count as blocks)
DerRel(X, ol, mlt, ub, mb, uu) ==
    {p \in Bl(X, ol) \X Bl(X, ol) :
        /\ p[1] # p[2]
        /\ \/ p \in uu
           \/ SigEdge(X, p[1], p[2]) /\ <<p[2], p[1]>> \notin uu
           \/ \E x \in Calls(X, p[1]), y \in Calls(X, p[2]) : <<x, y>> \in mlt
           \/ \E y \in Calls(X, p[2]) : <<p[1], y>> \in ub
           \/ \E x \in Calls(X, p[1]) : <<x, p[2]>> \in mb}

\* everything TLC needs about the designs, computed once (top-level constants are cached)
DI     == DOMAIN Designs
SameOf == TLCEval([i \in DI |-> SameRel(Designs[i])])
MLtOf  == TLCEval([i \in DI |-> MLtRel(Designs[i], SameOf[i])])
UBOf   == TLCEval([i \in DI |-> UBeforeRel(Designs[i], MLtOf[i] \cup SameOf[i])])
MBOf   == TLCEval([i \in DI |-> MBeforeRel(Designs[i], MLtOf[i] \cup SameOf[i])])
UUOf   == TLCEval([i \in DI |-> Pairs(Designs[i].uu)])
Der1C  == TLCEval([i \in DI |-> DerRel(Designs[i], FALSE, MLtOf[i], UBOf[i], MBOf[i], UUOf[i])])
Der1O  == TLCEval([i \in DI |-> DerRel(Designs[i], TRUE,  MLtOf[i], UBOf[i], MBOf[i], UUOf[i])])
DtcC   == TLCEval([i \in DI |-> TC(Der1C[i], RealBlocks(Designs[i]))])
DtcO   == TLCEval([i \in DI |-> TC(Der1O[i], AllBlocks(Designs[i]))])

Der1(i, ol)  == IF ol THEN Der1O[i] ELSE Der1C[i]
DerTC(i, ol) == IF ol THEN DtcO[i] ELSE DtcC[i]
InCycle(i, ol, b)  == <<b, b>> \in DerTC(i, ol)
SameSCC(i, ol, a, b) == a = b \/ (<<a, b>> \in DerTC(i, ol) /\ <<b, a>> \in DerTC(i, ol))
Cyclic(i, ol) == \E b \in Bl(Designs[i], ol) : InCycle(i, ol, b)
\* a cyclic group with an update_once member cannot be iterated; a cyclic group none of whose internal
\* edges carries a signal has nothing to iterate on: both must be refused by every scheduler
MustReject(i, ol) ==
    \E b \in Bl(Designs[i], ol) :
        /\ InCycle(i, ol, b)
        /\ LET G == {c \in Bl(Designs[i], ol) : SameSCC(i, ol, b, c)} IN
           \/ \E c \in G : Designs[i].blocks[c].once
           \/ \A x, y \in G : <<x, y>> \in Der1(i, ol) => ~SigEdge(Designs[i], x, y)

---------------------------------------------------------------------------
\* event-level meaning.  An event is <<kind, block, method>>:
\*   <<"s", b, 0>> block b starts     <<"e", b, 0>> block b ends
\*   <<"i", c, m>> method m is invoked by caller c  (a block; open loop: an `ext` pseudo block = one call
\*                 of a top-level method by the test bench, which may invoke further methods itself)
Started(h, j, b) == \E i \in 1 .. j - 1 : h[i] = <<"s", b, 0>>
Ended(h, j, b)   == \E i \in 1 .. j - 1 : h[i] = <<"e", b, 0>>
OtherCaller(c1, c2) == c1 # c2

MethodOrderAt(i, h, j) ==
    h[j][1] = "i" => \A k \in 1 .. j - 1 :
        (h[k][1] = "i" /\ OtherCaller(h[k][2], h[j][2])) => <<h[j][3], h[k][3]>> \notin MLtOf[i]
BlockBeforeMethodAt(i, h, j) ==
    h[j][1] = "i" => \A b \in RealBlocks(Designs[i]) :
        (b # h[j][2] /\ <<b, h[j][3]>> \in UBOf[i]) => Ended(h, j, b)
MethodBeforeBlockAt(i, h, j) ==
    h[j][1] = "i" => \A b \in RealBlocks(Designs[i]) :
        (b # h[j][2] /\ <<h[j][3], b>> \in MBOf[i]) => ~Started(h, j, b)
\* (members of a cyclic group that may be iterated -- a value loop among plain update blocks, SimKernel.tla's
\* business -- are not ordered among themselves)
Iterated(i, a, b) == SameSCC(i, FALSE, a, b) /\ ~MustReject(i, FALSE)
ExplicitAt(i, h, j) ==
    h[j][1] = "s" => \A a \in RealBlocks(Designs[i]) :
        <<a, h[j][2]>> \in UUOf[i] => (Ended(h, j, a) \/ Iterated(i, a, h[j][2]))
SignalAt(i, h, j) ==
    h[j][1] = "s" => \A a \in RealBlocks(Designs[i]) \ {h[j][2]} :
        (SigEdge(Designs[i], a, h[j][2]) /\ <<h[j][2], a>> \notin UUOf[i])
            => (Ended(h, j, a) \/ Iterated(i, a, h[j][2]))
OnceAt(i, h, j) == h[j][1] = "s" => ~Started(h, j, h[j][2])

EventAt(i, h, j) == /\ MethodOrderAt(i, h, j) /\ BlockBeforeMethodAt(i, h, j) /\ MethodBeforeBlockAt(i, h, j)
                    /\ ExplicitAt(i, h, j) /\ SignalAt(i, h, j) /\ OnceAt(i, h, j)
EventOK(i, h)  == \A j \in DOMAIN h : EventAt(i, h, j)
Complete(i, h) == \A b \in RealBlocks(Designs[i]) : Ended(h, Len(h) + 1, b)

\* the events of one execution of block b
BlockEvents(X, b) == <<<<"s", b, 0>>>> \o [k \in DOMAIN X.blocks[b].calls |-> <<"i", b, X.blocks[b].calls[k]>>]
                     \o <<<<"e", b, 0>>>>
\* block order of a history, and "is a linear extension of Der1"
StartPos(h, b) == CHOOSE j \in DOMAIN h : h[j] = <<"s", b, 0>>
LinExt(i, h) == \A p \in Der1(i, FALSE) : StartPos(h, p[1]) < StartPos(h, p[2])

---------------------------------------------------------------------------
\* the machine

VARIABLES d,      \* design index
          mode,   \* "sched" | "free" | "ol" | "rejected"
          hist,   \* events of the current cycle
          cur,    \* block being executed (0: none)
          pc,     \* calls of cur already issued
          sch,    \* ol: the static schedule, a sequence over blocks and slots (ext blocks)
          j,      \* ol: schedule entries before position j+1 have been dealt with in this cycle
          pend,   \* ol: top-level method slot whose call is in progress (0: none)
          ncall   \* ol: calls made by the test bench so far
vars == <<d, mode, hist, cur, pc, sch, j, pend, ncall>>

D == Designs[d]

\* all linear extensions of Der1 (open-loop variant) as sequences -- the schedules OpenLoopCLPass may produce
RECURSIVE Exts(_, _, _)
Exts(i, done, left) ==
    IF left = {} THEN {<<>>}
    ELSE UNION {{<<b>> \o t : t \in Exts(i, done \cup {b}, left \ {b})} :
                b \in {x \in left : \A p \in Der1(i, TRUE) : p[2] = x => p[1] \in done}}

Init == /\ d \in DOMAIN Designs
        /\ mode \in SeqSet(Input.modes)
        /\ hist = <<>> /\ cur = 0 /\ pc = 0 /\ j = 0 /\ pend = 0 /\ ncall = 0
        /\ IF mode = "ol" THEN /\ ~Cyclic(d, TRUE)
                               /\ sch \in Exts(d, {}, AllBlocks(Designs[d]))
           ELSE sch = <<>>

Ready(b) == \A p \in Der1(d, FALSE) : (p[2] = b /\ ~SameSCC(d, FALSE, p[1], b)) => Ended(hist, Len(hist) + 1, p[1])

\* ---- closed loop: sim_tick walks update_schedule
Start(b) == /\ mode \in {"sched", "free"} /\ cur = 0 /\ b \in RealBlocks(D)
            /\ ~Started(hist, Len(hist) + 1, b)
            /\ mode = "sched" => (Ready(b) /\ ~MustReject(d, FALSE))
            /\ hist' = Append(hist, <<"s", b, 0>>) /\ cur' = b /\ pc' = 0
            /\ UNCHANGED <<d, mode, sch, j, pend, ncall>>
Invoke   == /\ cur # 0 /\ pc < Len(D.blocks[cur].calls)
            /\ hist' = Append(hist, <<"i", cur, D.blocks[cur].calls[pc + 1]>>) /\ pc' = pc + 1
            /\ UNCHANGED <<d, mode, cur, sch, j, pend, ncall>>
End      == /\ cur # 0 /\ pc = Len(D.blocks[cur].calls)
            /\ hist' = Append(hist, <<"e", cur, 0>>) /\ cur' = 0 /\ pc' = 0
            /\ UNCHANGED <<d, mode, sch, j, pend, ncall>>
\* the schedule pass raises UpblkCyclicError: nothing is ever executed
Reject   == /\ mode = "sched" /\ MustReject(d, FALSE) /\ hist = <<>>
            /\ mode' = "rejected" /\ UNCHANGED <<d, hist, cur, pc, sch, j, pend, ncall>>
Done     == /\ mode \in {"sched", "free", "rejected"} /\ cur = 0
            /\ (mode = "rejected" \/ Complete(d, hist)) /\ UNCHANGED vars

\* ---- open loop (OpenLoopCLPass.wrap_method).  The pass keeps two indices (i into the schedule without
\* methods, j into the schedule with methods); i = number of blocks among the first j entries, so one
\* index is enough here.
Slot(m)   == CHOOSE p \in DOMAIN sch : sch[p] = m
RECURSIVE RunBlocks(_, _, _)
RunBlocks(h, lo, hi) ==      \* the blocks among sch[lo .. hi] are executed in order
    IF lo > hi THEN h
    ELSE RunBlocks(IF D.blocks[sch[lo]].ext THEN h ELSE h \o BlockEvents(D, sch[lo]), lo + 1, hi)
OLBegin(m) == /\ mode = "ol" /\ pend = 0 /\ ncall < Input.maxcalls
              /\ m \in AllBlocks(D) /\ D.blocks[m].ext
              /\ pend' = m /\ ncall' = ncall + 1 /\ UNCHANGED <<d, mode, hist, cur, pc, sch, j>>
\* "if j > my_idx_orig": the slot is behind -- finish the cycle (rest of the blocks, flip-flops), restart
OLWrap     == /\ mode = "ol" /\ pend # 0 /\ j >= Slot(pend)
              /\ Assert(Complete(d, RunBlocks(hist, j + 1, Len(sch))), "open-loop cycle did not run every block")
              /\ hist' = <<>> /\ j' = 0 /\ UNCHANGED <<d, mode, cur, pc, sch, pend, ncall>>
\* advance to the slot, then execute the method
OLCall     == /\ mode = "ol" /\ pend # 0 /\ j < Slot(pend)
              /\ hist' = RunBlocks(hist, j + 1, Slot(pend) - 1)
                          \o [k \in DOMAIN D.blocks[pend].calls |-> <<"i", pend, D.blocks[pend].calls[k]>>]
              /\ j' = Slot(pend) /\ pend' = 0 /\ UNCHANGED <<d, mode, cur, pc, sch, ncall>>
OLStop     == mode = "ol" /\ pend = 0 /\ ncall = Input.maxcalls /\ UNCHANGED vars

\* the three kinds of steps a schedule holds; Start is the same for all of them (named apart so that the
\* coverage of a model check says whether tickers and net steps were exercised)
SomeStart   == \E b \in AllBlocks(D) : ~D.blocks[b].gl /\ ~D.blocks[b].net /\ Start(b)
Ticker      == \E b \in AllBlocks(D) : D.blocks[b].gl /\ Start(b)     \* greenlet ticker: runs the body in place
NetStep     == \E b \in AllBlocks(D) : D.blocks[b].net /\ Start(b)
SomeOLBegin == \E m \in AllBlocks(D) : OLBegin(m)
Next == SomeStart \/ Ticker \/ NetStep \/ Invoke \/ End \/ Reject \/ Done
        \/ SomeOLBegin \/ OLWrap \/ OLCall \/ OLStop
Spec == Init /\ [][Next]_vars

---------------------------------------------------------------------------
\* what TLC checks
\* the scheduler of the specification honours every constraint (closed and open loop)
Honoured    == mode \in {"sched", "ol"} => EventOK(d, hist)
\* an arbitrary order honours them exactly when it is a linear extension of the derived relation
DerivedExact == (mode = "free" /\ cur = 0 /\ Complete(d, hist)) => (EventOK(d, hist) <=> LinExt(d, hist))
\* hence no schedule exists for a cyclic relation; in particular none for a design that must be rejected
NoScheduleIfCyclic == (mode = "free" /\ cur = 0 /\ Complete(d, hist) /\ EventOK(d, hist)) => ~Cyclic(d, FALSE)
RejectedOnlyIfMust == mode = "rejected" => MustReject(d, FALSE)
\* every CL cycle is refused: a cycle that contains an update_once block or carries no signal
\* (holds for the model family, which has no pure value loops -- those are SimKernel.tla's business)
CyclicIsMustReject == Cyclic(d, FALSE) => MustReject(d, FALSE)
\* (with CHECK_DEADLOCK: an acyclic design can always be scheduled to completion)
---------------------------------------------------------------------------
\* well-formed descriptors: a wrapped block is an update_once block of the design, a net step calls nothing
DescOK(X) == \A b \in DOMAIN X.blocks :
                /\ X.blocks[b].gl  => (X.blocks[b].once /\ ~X.blocks[b].ext /\ ~X.blocks[b].net /\ X.blocks[b].calls # <<>>)
                /\ X.blocks[b].net => (~X.blocks[b].once /\ ~X.blocks[b].ext /\ X.blocks[b].calls = <<>>
                                       /\ Len(X.blocks[b].rd) = 1 /\ X.blocks[b].wr # <<>>)
ASSUME \A i \in DI : DescOK(Designs[i])
\* classification of a corpus for the harness (cfg: INIT ClassifyInit / NEXT ClassifyNext): which designs
\* every scheduler must refuse, the derived relation (closed loop, transitively closed), and whether some
\* block is constrained against a method it invokes itself
SelfRef(i) == \/ \E p \in UBOf[i] : p[2] \in Calls(Designs[i], p[1])
              \/ \E p \in MBOf[i] : p[1] \in Calls(Designs[i], p[2])
Classify == \A i \in DI :
    /\ PrintT(<<"R", i, Cyclic(i, FALSE), MustReject(i, FALSE), Cyclic(i, TRUE), MustReject(i, TRUE), SelfRef(i)>>)
    /\ \A b \in RealBlocks(Designs[i]) : PrintT(<<"R2", i, b, {p[2] : p \in {q \in DtcC[i] : q[1] = b}}>>)
ClassifyInit == /\ Classify
                /\ d = 1 /\ mode = "classified" /\ hist = <<>> /\ cur = 0 /\ pc = 0 /\ sch = <<>>
                /\ j = 0 /\ pend = 0 /\ ncall = 0
ClassifyNext == UNCHANGED vars
=============================================================================
