----------------------------- MODULE DelayPipe -----------------------------
(***************************************************************************)
(* Delay pipes and the random stall of the magic memories, property C18    *)
(* (pymtl3/stdlib/delays/DelayPipeCL.py: DelayPipeDeqCL, DelayPipeSendCL;  *)
(* pymtl3/stdlib/delays/StallCL.py: StallCL).  These are the components    *)
(* that make "timing parameters change only WHEN responses arrive, never   *)
(* what they contain" and "each port's responses come back in request      *)
(* order" true for MagicMemoryCL.                                          *)
(*                                                                         *)
(* ONE action per simulated clock cycle, Cycle(eo, do, st):                *)
(*   eo : the producer offers its next message (serial number nxt)         *)
(*   do : kind "deq": the consumer calls deq() if deq.rdy();               *)
(*        kind "send": the consumer's recv.rdy() is TRUE in this cycle     *)
(*   st : the stall decision of a StallCL in front of enq (HasStall only): *)
(*        the ONLY freedom of the stall is this Boolean per cycle          *)
(* `pipe` is the list of slots of the implementation (None = 0), slot 1 =  *)
(* pipeline[0] (enq side), the last slot = pipeline[-1] (deq/send side).   *)
(*                                                                         *)
(* What the code does (model of the code; the exact ready timing is NOT    *)
(* fixed by the statement of C18):                                         *)
(*   DelayPipeDeqCL, delay >= 1 : delay+1 slots.  up_delay runs before     *)
(*     enq / deq / their rdy: if the last slot is empty the deque rotates  *)
(*     (every message moves one slot); otherwise the WHOLE pipe holds      *)
(*     (inelastic).  enq.rdy = slot 1 empty, deq.rdy = last slot full;     *)
(*     enq and deq of one cycle touch different slots (any call order).    *)
(*   DelayPipeDeqCL, delay = 0 : one slot, no update block, M(enq)<M(deq): *)
(*     a message enqueued in a cycle can be dequeued in the same cycle     *)
(*     (bypass); if it is not, it stays and blocks enq.                    *)
(*   DelayPipeSendCL, delay >= 1 : delay slots.  up_delay runs before enq: *)
(*     last slot full -> if the consumer is ready send it, empty the slot  *)
(*     and rotate, else hold; last slot empty -> rotate.                   *)
(*   DelayPipeSendCL, delay = 0 : enq IS send (connected), no storage.     *)
(*   StallCL : recv.rdy() = (draw > stall_prob) and send.rdy(); recv(m) =  *)
(*     send(m).  A stalled cycle is a cycle without an offer.              *)
(*                                                                         *)
(* The pure operators take (kind, delay) as parameters so that             *)
(* DelayPipeTrace validates traces of many configurations in one TLC run.  *)
(* History variables (Track = TRUE only): delivered, age, blk.             *)
(***************************************************************************)
EXTENDS Naturals, Sequences, FiniteSets

CONSTANTS Kind,      \* "deq" | "send"
          Delay,     \* 0, 1, 2, ...
          NMsgs,     \* the producer offers the serial numbers 1 .. NMsgs in order
          HasStall,  \* TRUE: a StallCL sits in front of enq
          Track      \* TRUE: keep the history variables (invariants); FALSE: freeze them (graph walk)

VARIABLES pipe, nxt, out, delivered, age, blk
vars == <<pipe, nxt, out, delivered, age, blk>>

---------------------------------------------------------------------------
\* Pure definitions (parameterised by kind k and delay d)

None  == 0
Kinds == {"deq", "send"}
NSlots(k, d) == IF k = "deq" THEN d + 1 ELSE d
EmptyPipe(k, d) == [i \in 1 .. NSlots(k, d) |-> None]

\* collections.deque.rotate(): the last element becomes the first
Rot(p) == [i \in 1 .. Len(p) |-> IF i = 1 THEN p[Len(p)] ELSE p[i - 1]]

\* messages in the pipe, oldest (closest to the exit) first
InFlight(p) == LET F[i \in 0 .. Len(p)] ==
                       IF i = 0 THEN <<>>
                       ELSE IF p[Len(p) - i + 1] = None THEN F[i - 1]
                            ELSE Append(F[i - 1], p[Len(p) - i + 1])
               IN  F[Len(p)]
Pos(p, m) == CHOOSE i \in 1 .. Len(p) : p[i] = m

\* One cycle WITHOUT a stall in front.  Result:
\*   pipe     slots after the cycle
\*   enq_rdy  enq.rdy() as the producer block sees it
\*   enq_x    the offered message m was enqueued
\*   deq_rdy  kind deq: deq.rdy() as the consumer block sees it; kind send: = deq_x
\*   deq_x    a message left the pipe (deq() called / send() called by the pipe)
\*   msg      kind deq: the message at the exit when deq_rdy (peek); kind send: the message sent
\*   adv      FALSE iff the messages that were in the pipe at the start of the cycle were held
StepDeq(d, p, eo, m, do) ==
    IF d = 0
    THEN LET er == p[1] = None
             ex == eo /\ er
             p1 == IF ex THEN <<m>> ELSE p
             dr == p1[1] # None
             dx == do /\ dr
         IN  [pipe |-> IF dx THEN <<None>> ELSE p1, enq_rdy |-> er, enq_x |-> ex,
              deq_rdy |-> dr, deq_x |-> dx, msg |-> p1[1], adv |-> p[1] = None]
    ELSE LET n   == d + 1
             adv == p[n] = None
             p1  == IF adv THEN Rot(p) ELSE p
             er  == p1[1] = None
             ex  == eo /\ er
             dr  == p1[n] # None
             dx  == do /\ dr
             p2  == [i \in 1 .. n |-> IF i = 1 /\ ex THEN m
                                      ELSE IF i = n /\ dx THEN None ELSE p1[i]]
         IN  [pipe |-> p2, enq_rdy |-> er, enq_x |-> ex, deq_rdy |-> dr, deq_x |-> dx,
              msg |-> p1[n], adv |-> adv]

StepSend(d, p, eo, m, do) ==
    IF d = 0
    THEN [pipe |-> p, enq_rdy |-> do, enq_x |-> eo /\ do, deq_rdy |-> eo /\ do, deq_x |-> eo /\ do,
          msg |-> IF eo /\ do THEN m ELSE None, adv |-> TRUE]
    ELSE LET full == p[d] # None
             dx   == full /\ do
             adv  == ~full \/ do
             p1   == IF dx THEN Rot([p EXCEPT ![d] = None]) ELSE IF adv THEN Rot(p) ELSE p
             er   == p1[1] = None
             ex   == eo /\ er
         IN  [pipe |-> IF ex THEN [p1 EXCEPT ![1] = m] ELSE p1, enq_rdy |-> er, enq_x |-> ex,
              deq_rdy |-> dx, deq_x |-> dx, msg |-> IF dx THEN p[d] ELSE None, adv |-> adv]

StepPlain(k, d, p, eo, m, do) == IF k = "deq" THEN StepDeq(d, p, eo, m, do) ELSE StepSend(d, p, eo, m, do)

\* With a StallCL in front: the producer sees rdy = ~st /\ (downstream rdy); a stalled cycle is a
\* cycle in which nothing is offered downstream.  (The downstream rdy does not depend on the offer.)
Step(k, d, p, eo, m, do, st) ==
    LET r == StepPlain(k, d, p, eo /\ ~st, m, do)
    IN  [r EXCEPT !.enq_rdy = ~st /\ @]

---------------------------------------------------------------------------
\* State machine

IdleOut == [eo |-> FALSE, do |-> FALSE, st |-> FALSE, enq_rdy |-> TRUE, enq_x |-> FALSE, deq_rdy |-> FALSE, deq_x |-> FALSE,
            msg |-> None, dage |-> 0, dblk |-> FALSE, sok |-> TRUE]
AgeCap == Delay + 1

Init == /\ pipe = EmptyPipe(Kind, Delay) /\ nxt = 1 /\ out = IdleOut
        /\ delivered = <<>> /\ age = [m \in 1 .. NMsgs |-> 0] /\ blk = {}

Cycle(eo, do, st) ==
    LET r    == Step(Kind, Delay, pipe, eo, nxt, do, st)
        was  == {pipe[i] : i \in 1 .. Len(pipe)} \ {None}          \* in the pipe at the start
        age1 == [m \in 1 .. NMsgs |-> IF m \in was THEN (IF age[m] < AgeCap THEN age[m] + 1 ELSE AgeCap) ELSE 0]
        blk1 == IF r.adv THEN blk ELSE blk \cup was
        dm   == r.msg
    IN  /\ eo => nxt <= NMsgs
        /\ pipe' = r.pipe
        /\ nxt'  = IF r.enq_x THEN nxt + 1 ELSE nxt
        /\ out'  = [eo |-> eo, do |-> do, st |-> st, enq_rdy |-> r.enq_rdy, enq_x |-> r.enq_x, deq_rdy |-> r.deq_rdy,
                    deq_x |-> r.deq_x, msg |-> r.msg,
                    dage |-> IF Track /\ r.deq_x THEN age1[dm] ELSE 0,
                    dblk |-> Track /\ r.deq_x /\ dm \in blk1,
                    \* history: what a stalled cycle did = what a cycle without an offer does
                    sok  |-> st => (~r.enq_x /\ r.pipe = StepPlain(Kind, Delay, pipe, FALSE, nxt, do).pipe)]
        /\ IF Track
           THEN /\ delivered' = IF r.deq_x THEN Append(delivered, dm) ELSE delivered
                /\ age' = [m \in 1 .. NMsgs |-> IF r.deq_x /\ m = dm THEN 0 ELSE age1[m]]
                /\ blk' = IF r.deq_x THEN blk1 \ {dm} ELSE blk1
           ELSE UNCHANGED <<delivered, age, blk>>

\* The outcome of a cycle, as named actions (TLC reports coverage per action, the dumped state
\* graph labels every edge with the action and its arguments).  The class is computed from the
\* current state, so that each action evaluates Cycle only for its own arguments.
Cls(eo, do, st) ==
    LET r == Step(Kind, Delay, pipe, eo, nxt, do, st)
    IN  << IF ~eo THEN "idle" ELSE IF st THEN "stall" ELSE IF r.enq_x THEN "enq" ELSE "refuse", r.deq_x >>
Idle(eo, do, st)      == Cls(eo, do, st) = <<"idle", FALSE>>   /\ Cycle(eo, do, st)
Deq(eo, do, st)       == Cls(eo, do, st) = <<"idle", TRUE>>    /\ Cycle(eo, do, st)
Enq(eo, do, st)       == Cls(eo, do, st) = <<"enq", FALSE>>    /\ Cycle(eo, do, st)
EnqDeq(eo, do, st)    == Cls(eo, do, st) = <<"enq", TRUE>>     /\ Cycle(eo, do, st)
Refuse(eo, do, st)    == Cls(eo, do, st) = <<"refuse", FALSE>> /\ Cycle(eo, do, st)
RefuseDeq(eo, do, st) == Cls(eo, do, st) = <<"refuse", TRUE>>  /\ Cycle(eo, do, st)
Stall(eo, do, st)     == Cls(eo, do, st) = <<"stall", FALSE>>  /\ Cycle(eo, do, st)
StallDeq(eo, do, st)  == Cls(eo, do, st) = <<"stall", TRUE>>   /\ Cycle(eo, do, st)

Next == \E eo \in BOOLEAN, do \in BOOLEAN, st \in (IF HasStall THEN BOOLEAN ELSE {FALSE}) :
            \/ Idle(eo, do, st)   \/ Deq(eo, do, st)
            \/ Enq(eo, do, st)    \/ EnqDeq(eo, do, st)
            \/ Refuse(eo, do, st) \/ RefuseDeq(eo, do, st)
            \/ Stall(eo, do, st)  \/ StallDeq(eo, do, st)

Spec == Init /\ [][Next]_vars

---------------------------------------------------------------------------
\* Properties.  (S) = what the statement of C18 needs from a delay stage; (C) = model of the code.

Slots    == 1 .. NSlots(Kind, Delay)
InPipe   == {pipe[i] : i \in Slots} \ {None}
UpTo(n)  == [i \in 1 .. n |-> i]

TypeOK == /\ pipe \in [Slots -> 0 .. NMsgs] /\ nxt \in 1 .. NMsgs + 1
          /\ Kind \in Kinds /\ age \in [1 .. NMsgs -> 0 .. AgeCap] /\ blk \subseteq InPipe

\* (S) nothing lost, duplicated, invented or reordered: what was delivered followed by what is in
\*     the pipe (exit side first) is exactly what was accepted, in order
Conservation == Track => delivered \o InFlight(pipe) = UpTo(nxt - 1)
FifoOrder    == Track => delivered = UpTo(Len(delivered))
\* (S) occupancy bound: never more messages in flight than slots
Occupancy    == Track => (nxt - 1) - Len(delivered) <= NSlots(Kind, Delay)
\* (S) a message accepted in cycle t is not delivered before cycle t + Delay
NotEarly     == (Track /\ out.deq_x) => out.dage >= Delay
\* model canary (must be VIOLATED): no message is ever delivered exactly Delay cycles after its enq
LateCanary   == (Track /\ out.deq_x) => out.dage > Delay
\* (C) ... and it IS at the exit in cycle t + Delay when nothing blocked it: a message that was
\*     never held (no cycle in which the pipe did not advance while it was inside) sits exactly
\*     `age` slots behind the entry, and is delivered with age = Delay
Punctual     == Track => /\ \A m \in InPipe \ blk : age[m] = Pos(pipe, m) - 1
                         /\ (out.deq_x /\ ~out.dblk) => out.dage = Delay
                         /\ Kind = "deq" => \A m \in InPipe \ blk : age[m] = Delay => out.deq_rdy
\* (C) the delivered / peeked message is the oldest one
HeadOut      == Track => (out.deq_x => out.msg = delivered[Len(delivered)])
\* (S) the stall only decides WHEN: a stalled cycle leaves the pipe as a cycle without an offer does
StallIsIdle  == out.sok
=============================================================================
