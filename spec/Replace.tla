------------------------------ MODULE Replace ------------------------------
(***************************************************************************)
(* replace_component / replace_component_with_obj (pymtl3/dsl/Component.py), *)
(* property C15.                                                           *)
(*                                                                         *)
(* A harness hierarchy has replaceable POSITIONS (plain child, list        *)
(* element, element of a 2-D list, grand-child); a configuration           *)
(*     cfg : Position -> Class                                             *)
(* says which class of a PALETTE of interface-compatible classes sits      *)
(* where.  The whole-design metadata kept at the top component is modelled *)
(* as a record `meta` of sets of ENTRIES; an entry is a tuple of NAMES and *)
(* a name is a pair <<tag, text>>:                                         *)
(*     tag = a position   the object lives below that position, text is    *)
(*                        its name relative to the position (".x.in_")     *)
(*     tag = ""           object of the fixed harness, text = full name    *)
(*     tag = "#"          a scalar ("lt", "gt", "in", "out", ...)          *)
(*     tag = "$"          only inside the per-class data: "this instance"  *)
(* An entry is LOCAL to a position when the class sitting there declares   *)
(* it (it is in Part(p, cfg[p])); every other entry belongs to the harness. *)
(* Harness entries may MENTION names below a position (a connection to a   *)
(* child's port, a parent block reading a child's port, a slice of a       *)
(* child's port that exists only because the parent uses it): these are    *)
(* the cross-boundary items that _delete_component saves by name and       *)
(* _add_component re-evaluates against the new object.                     *)
(*                                                                         *)
(* Primary fields (Input.fields):                                          *)
(*   comps sigs mports ifcs consts funcs   name sets                       *)
(*   sinfo   <<sig, kind, host component, parent signal | "-",             *)
(*             slice range "lo:hi" | "-">>                                 *)
(*   minfo   <<method port, role, host component>>                         *)
(*   phs     placeholder components                                        *)
(*   conn    <<host component, a, b>>   one connect() made in host         *)
(*   blks ff once                        update blocks and their kinds     *)
(*   rd wr calls  <<block, object>>                                        *)
(*   uu  <<blk, blk>>   rdu wru <<blk, "lt"|"gt", signal>>                 *)
(*   mc  <<x, y, "lt"|"eq">>             M/U method constraints            *)
(* Derived views (operator View): named objects, adjacency, key sets of    *)
(* the block dictionaries, value nets and method nets with their writers.  *)
(*                                                                         *)
(* The per-class local metadata and the harness metadata are DATA: the     *)
(* harness extracts them from freshly elaborated designs (one class in a   *)
(* reference position) and checks that the extraction is the same in every *)
(* position, i.e. that freshly built designs are compositional:            *)
(*     Meta(cfg) = Harness \cup UNION { Local[cfg[p]] renamed to p }       *)
(* Meta(cfg) is therefore the specification's image of "the design built   *)
(* from scratch with the replacement in place".                            *)
(*                                                                         *)
(* Positions may be NESTED (Input.below[p] = the positions inside the       *)
(* component at p, e.g. "m" hosts "m.g"); every position has its own       *)
(* palette (Input.palof[p]): leaf classes of several KINDS (pure RTL,      *)
(* registers, internal method nets without external method ports, nested   *)
(* children, internal slices / constants) and, for a hosting position, the *)
(* wrapper classes.  Replacing the component at p rebuilds everything      *)
(* below p too: Sub(p) = {p} \cup Below(p).                                *)
(*                                                                         *)
(* Actions Replace(pos, cls) / ReplaceWithObj(pos, cls): the two API calls *)
(* have the same abstract effect ReplaceMeta on the metadata and differ in *)
(* who constructs the new object: replace_component re-uses the            *)
(* constructor arguments of the REMOVED object (variable arg: the classes  *)
(* the object at the hosting position was constructed with), so a nested   *)
(* position falls back to the class its host was built with;               *)
(* replace_component_with_obj gets an object the caller built beforehand,  *)
(* here with the classes currently sitting at the nested positions.        *)
(*                                                                         *)
(* One TLC run explores several SCENARIOS (Input.scenarios; variable sc):   *)
(* initial designs, the positions replaced, the classes used, the bound on *)
(* the length of a history and whether either API call may occur at every  *)
(* step ("both") or replace_component at even, replace_component_with_obj  *)
(* at odd steps ("alt").                                                   *)
(*                                                                         *)
(* Bug # "none" switches on a model-level mutant of ReplaceMeta (used by   *)
(* the harness as a canary: TLC must then report an invariant violation).  *)
(* MutantReport evaluates, for every mutant named in Input.bugs, whether a *)
(* history of at most two steps from Input.mutant_init breaks              *)
(* HistoryIndependent or NoLeftover, and prints the verdict (the same      *)
(* canary inside the run that checks the invariants of the real model).    *)
(* HistOnly = TRUE drops the metadata component of the state so that the   *)
(* graph of (sc, cfg, arg, n) can be dumped compactly; its paths are the   *)
(* histories that the harness replays on the real code.                    *)
(***************************************************************************)
EXTENDS Naturals, Sequences, FiniteSets, TLC, Json, IOUtils, SequencesExt

CONSTANTS Bug,         \* "none" or the name of a model-level mutant
          HistOnly     \* TRUE: do not track metadata (history enumeration only)

VARIABLES sc, cfg, arg, meta, n
vars == <<sc, cfg, arg, meta, n>>

---------------------------------------------------------------------------
\* Data

Input     == JsonDeserialize(IOEnv.VERIF_INPUT)
AllPos    == ToSet(Input.allpos)             \* every position of the hierarchy
PFields   == ToSet(Input.fields)
Classes   == DOMAIN Input.local
FullPaletteOf(p) == ToSet(Input.palof[p])    \* the classes that fit position p
\* scenario i: [inits, positions, palette, kinds, maxlen]
Scen          == Input.scenarios
PositionsOf(i)  == ToSet(Scen[i].positions)                         \* positions replaced
PaletteOf(i, p) == FullPaletteOf(p) \cap ToSet(Scen[i].palette)     \* classes used
InitCfgsOf(i)   == {[p \in AllPos |-> g[p]] : g \in ToSet(Scen[i].inits)}   \* initial designs
MaxLenOf(i)     == Scen[i].maxlen
KindsOf(i)      == Scen[i].kinds
Below(p)  == ToSet(Input.below[p])           \* positions nested inside the component at p
Sub(p)    == {p} \cup Below(p)
NestedPos == UNION {Below(p) : p \in AllPos}
Outer(p)  == {q \in AllPos : p \in Below(q)}
DeepPos   == ToSet(Input.deep)               \* positions whose parent component is not the top

HarnessOf(f)  == ToSet(Input.harness[f])
LocalOf(c, f) == ToSet(Input.local[c][f])

None == <<"#", "<none>">>
Top  == <<"", "s">>

---------------------------------------------------------------------------
\* Names and entries

Rename(x, p)      == IF x[1] = "$" THEN <<p, x[2]>> ELSE x
RenameEntry(e, p) == [i \in DOMAIN e |-> Rename(e[i], p)]
Mentions(e, p)    == \E i \in DOMAIN e : e[i][1] = p
MentionsAny(e, S) == \E i \in DOMAIN e : e[i][1] \in S

Part(p, c) == [f \in PFields |-> {RenameEntry(e, p) : e \in LocalOf(c, f)}]
\* what the classes of configuration g declare at the positions S
LocalAt(g, S, f) == UNION {{RenameEntry(e, q) : e \in LocalOf(g[q], f)} : q \in S}

\* the design built from scratch for configuration g
Meta(g) == [f \in PFields |->
              HarnessOf(f) \cup UNION {Part(p, g[p])[f] : p \in DOMAIN g}]

---------------------------------------------------------------------------
\* The replacement

\* model-level mutants (canaries)
BugKeeps(bug, f) == \/ bug = "wr_typo"          /\ f = "wru"
                    \/ bug = "no_l4_uncollect"  /\ f \in {"once", "mc"}
                    \/ bug = "ifc_kept"         /\ f = "ifcs"
                    \/ bug = "reads_kept"       /\ f = "rd"
                    \/ bug = "signals_kept"     /\ f = "sigs"
BugLoses(bug, f, e, p) ==
    \/ bug = "same_child_connection_lost" /\ f = "conn"
                                          /\ \A i \in 2 .. Len(e) : e[i][1] = p
    \/ bug = "boundary_connection_lost"   /\ f = "conn"
    \/ bug = "boundary_reads_lost"        /\ f = "rd"
    \/ bug = "spawned_slice_lost"         /\ f = "sigs"
    \* only the blocks of the immediate parent are looked at: what a block further up says about
    \* the removed component is lost
    \/ bug = "ancestor_reads_lost"        /\ f \in {"rd", "calls"} /\ e[1][1] = "" /\ p \in DeepPos
    \* the write of a parent's update_ff block into the removed component is lost
    \/ bug = "ff_write_lost"              /\ f = "wr" /\ \E b \in HarnessOf("ff") : b[1] = e[1]

\* g is the configuration before the step, g2 the one after it
RM(bug, m, g, g2, p) ==
    [f \in PFields |->
        LET S        == Sub(p)
            old      == LocalAt(g, S, f)                               \* declared by the old classes
            kept     == {e \in m[f] : ~MentionsAny(e, S)}
            \* cross-boundary entries: naming objects below p but not (only) declared by the
            \* classes being removed - the harness mentions them (a removed class may have
            \* declared the same slice / field itself); saved by name before the old component is
            \* deleted and re-evaluated against the new one
            saved    == {e \in m[f] : MentionsAny(e, S)} \ (old \ HarnessOf(f))
            restored == IF bug = "none" THEN saved ELSE {e \in saved : ~BugLoses(bug, f, e, p)}
            leaked   == IF BugKeeps(bug, f) THEN m[f] \cap old
                        ELSE IF bug = "nested_kept" THEN m[f] \cap LocalAt(g, Below(p), f)
                        ELSE {}
            fresh    == LocalAt(g2, S, f)
        IN  kept \cup restored \cup fresh \cup leaked]

ReplaceMeta(m, g, g2, p) == RM(Bug, m, g, g2, p)

\* configuration / constructor arguments after a step
NextCfg(g, a, k, p, c) ==
    IF k = "Replace" THEN [q \in AllPos |-> IF q = p THEN c ELSE IF q \in Below(p) THEN a[q] ELSE g[q]]
    ELSE [g EXCEPT ![p] = c]
NextArg(g, a, k, p) ==
    IF k = "Replace" THEN a
    ELSE [q \in NestedPos |-> IF q \in Below(p) THEN g[q] ELSE a[q]]

---------------------------------------------------------------------------
\* State machine

Init == /\ sc \in 1 .. Len(Scen)
        /\ cfg \in InitCfgsOf(sc)
        /\ arg = [q \in NestedPos |-> cfg[q]]
        /\ meta = IF HistOnly THEN {} ELSE Meta(cfg)
        /\ n = 0

Step(k, pos, cls) ==
    /\ pos \in PositionsOf(sc) /\ cls \in PaletteOf(sc, pos)
    /\ n < MaxLenOf(sc)
    /\ sc'   = sc
    /\ cfg'  = NextCfg(cfg, arg, k, pos, cls)
    /\ arg'  = NextArg(cfg, arg, k, pos)
    /\ meta' = IF HistOnly THEN meta ELSE ReplaceMeta(meta, cfg, cfg', pos)
    /\ n'    = n + 1

\* top.replace_component(top.<pos>, cls): the new object is constructed by the API from the
\* constructor arguments of the old one
Replace(pos, cls) ==
    /\ IF KindsOf(sc) = "both" THEN TRUE ELSE n % 2 = 0
    /\ Step("Replace", pos, cls)

\* top.replace_component_with_obj(top.<pos>, cls(...)): the caller constructs the new object
ReplaceWithObj(pos, cls) ==
    /\ IF KindsOf(sc) = "both" THEN TRUE ELSE n % 2 = 1
    /\ Step("ReplaceWithObj", pos, cls)

\* (constant bounds, so that TLC labels every transition with its action and arguments; the scenario
\* restricts positions and classes inside Step)
Next == \E pos \in AllPos : \E cls \in FullPaletteOf(pos) :
            Replace(pos, cls) \/ ReplaceWithObj(pos, cls)

Spec == Init /\ [][Next]_vars

---------------------------------------------------------------------------
\* Derived views

NameFields == {"comps", "sigs", "mports", "ifcs", "consts", "funcs", "blks"}

Adj(m) == {<<e[2], e[3]>> : e \in m.conn} \cup {<<e[3], e[2]>> : e \in m.conn}

Nbrs(adj, S) == {e[2] : e \in {x \in adj : x[1] \in S}}

RECURSIVE Reach(_, _)
Reach(adj, S) == LET T == S \cup Nbrs(adj, S) IN IF T = S THEN S ELSE Reach(adj, T)

\* connected components (>= 2 members) that contain a node of `roots`
Components(adj, roots) ==
    LET start == roots \cap {e[1] : e \in adj}
        acc   == FoldLeft(LAMBDA a, x : IF x \in a.seen THEN a
                                        ELSE LET c == Reach(adj, {x})
                                             IN  [nets |-> a.nets \cup {c}, seen |-> a.seen \cup c],
                          [nets |-> {}, seen |-> {}], SetToSeq(start))
    IN  acc.nets

\* --- value nets: the writer of a net (ComponentLevel3._resolve_value_connections)
\* pymtl3 marks every object written by an update block (and, when a net gets its writer, every
\* other member of the net) as a writer that propagates to the nets it is a member of (set P);
\* signal ancestors of marked objects are marked without propagating (set Q).  A member v heads a
\* net when v is marked, is a constant, is a slice of a signal in P, or overlaps a sibling slice
\* in P.  Nets whose writer is known make their other members writers; iterate to the fixed point.
RangeOvl     == {<<r[1], r[2]>> : r \in ToSet(Input.rovl)}
Slices(m)    == {e \in m.sinfo : e[5][2] # "-"}
\* <<slice or struct field, the signal it is part of>> (the palettes nest one level only)
ParentRel(m) == {<<e[1], e[4]>> : e \in {x \in m.sinfo : x[4] # <<"#", "-">>}}
OvlRel(m)    == LET S == Slices(m)                                 \* overlapping sibling slices
                IN  {<<q[1][1], q[2][1]>> : q \in {r \in S \X S : /\ r[1][4] = r[2][4] /\ r[1][1] # r[2][1]
                                                                     /\ <<r[1][5][2], r[2][5][2]>> \in RangeOvl}}
ConstNames(m) == {e[1] : e \in m.consts}

ParentsOf(par, S) == {r[2] : r \in {x \in par : x[1] \in S}}

Candidates(net, P, Q, consts, par, ovl) ==
    (net \cap (P \cup Q \cup consts))
    \cup {r[1] : r \in {x \in par : x[1] \in net /\ x[2] \in P}}
    \cup {r[1] : r \in {x \in ovl : x[1] \in net /\ x[2] \in P}}

RECURSIVE Resolve(_, _, _, _, _, _, _)
Resolve(headless, headed, P, Q, consts, par, ovl) ==
    LET now == {net \in headless : Candidates(net, P, Q, consts, par, ovl) # {}}
    IN  IF now = {} THEN headed \cup {<<None, net>> : net \in headless}
        ELSE LET hd  == {<<CHOOSE v \in Candidates(net, P, Q, consts, par, ovl) : TRUE, net>> : net \in now}
                 rds == UNION {h[2] \ {h[1]} : h \in hd}
                 P2  == P \cup rds
                 Q2  == (Q \cup ParentsOf(par, rds)) \ P2
             IN  Resolve(headless \ now, headed \cup hd, P2, Q2, consts, par, ovl)

ValueNets(m) ==
    LET nets    == Components(Adj(m), {e[1] : e \in m.sigs})
        members == UNION nets
        written == {e[2] : e \in m.wr}
        phcomps == {e[1] : e \in m.phs}
        par     == ParentRel(m)
        \* top-level in-ports and out-ports of placeholders are writers by definition
        given   == {e[1] : e \in {x \in m.sinfo : (x[2][2] = "in"  /\ x[3] = Top)
                                                   \/ (x[2][2] = "out" /\ x[3] \in phcomps)}}
        P0      == written \cup (given \cap members)
        Q0      == ParentsOf(par, written) \ P0
    IN  Resolve(nets, {}, P0, Q0, ConstNames(m), par, OvlRel(m))

\* every net has at most one member that is written by a block or is a constant (else pymtl3
\* raises MultiWriterError)
UniqueWriter(m) ==
    LET nets    == Components(Adj(m), {e[1] : e \in m.sigs})
        written == {e[2] : e \in m.wr}
    IN  \A net \in nets : Cardinality((written \cup ConstNames(m)) \cap net) <= 1

\* --- method nets (ComponentLevel5._resolve_method_connections)
MethodNets(m) ==
    LET nets    == Components(Adj(m), {e[1] : e \in m.mports})
        phcomps == {e[1] : e \in m.phs}
        IsW(x)  == \E e \in m.minfo : /\ e[1] = x
                                      /\ \/ e[2][2] = "callee-impl"
                                         \/ e[2][2] = "callee" /\ e[3] \in phcomps
    IN  {<<IF \E x \in net : IsW(x) THEN CHOOSE x \in net : IsW(x) ELSE None, net>> : net \in nets}

View(m) ==
    [f \in PFields |-> m[f]] @@
    [named  |-> m.comps \cup m.sigs \cup m.mports \cup m.ifcs,
     adj    |-> Adj(m),
     hosted |-> m.blks, rdk |-> m.blks, wrk |-> m.blks, ck |-> m.blks,
     nets   |-> ValueNets(m),
     mnets  |-> MethodNets(m)]

---------------------------------------------------------------------------
\* Properties (C15)

\* names a class defines below a position
Defined(p, c) == UNION {{e[1] : e \in Part(p, c)[f]} : f \in NameFields \cap PFields}

NamesOf(m)    == UNION {UNION {{e[i] : i \in DOMAIN e} : e \in m[f]} : f \in PFields}
HarnessRec    == [f \in PFields |-> HarnessOf(f)]
HarnessNames  == NamesOf(HarnessRec)

\* history independence: the mutated design is the design built from scratch
HistoryIndependent == HistOnly \/ meta = Meta(cfg)

\* nothing named below a position that neither the class now sitting there defines nor the
\* harness mentions (stale names of removed components, dangling saved names)
LeftoverFree(m, g) == \A x \in NamesOf(m) :
                          x[1] \in AllPos => x \in Defined(x[1], g[x[1]]) \cup HarnessNames
NoLeftover == HistOnly \/ LeftoverFree(meta, cfg)

\* the palette is interface compatible: whatever the harness mentions below a position is
\* defined by every class, or is a slice of a signal defined by every class (so a saved name
\* can always be re-evaluated against the new object)
\* (names below p are mentioned by the harness and by the wrapper classes of a hosting position)
MentionedAt(p) ==
    {y \in HarnessNames : y[1] = p}
    \cup UNION {UNION {{y \in NamesOf(Part(q, c)) : y[1] = p} : c \in FullPaletteOf(q)} : q \in Outer(p)}

SameInterface ==
    \A p \in AllPos : \A c \in FullPaletteOf(p) :
        \A x \in MentionedAt(p) :
            \/ x \in Defined(p, c)
            \/ \E e \in HarnessOf("sinfo") : e[1] = x /\ e[4] \in Defined(p, c)

NetsWellFormed == HistOnly \/ UniqueWriter(meta)

\* model-level mutants, evaluated as a constant: some history of one or two steps (either call, any
\* position, any class that fits) from the configuration Input.mutant_init breaks
\* HistoryIndependent or NoLeftover when ReplaceMeta is replaced by the mutant
Broken(m, g) == m # Meta(g) \/ ~LeftoverFree(m, g)
Calls        == {"Replace", "ReplaceWithObj"}
\* (where to look: the mutant about nested positions only shows at a hosting position)
MutantPos(bug) == IF bug = "nested_kept" THEN NestedPos \cup {p \in AllPos : Below(p) # {}} ELSE AllPos
MutantCaught(bug) ==
    LET g0 == [p \in AllPos |-> Input.mutant_init[p]]
        a0 == [q \in NestedPos |-> g0[q]]
    IN  \E p1 \in MutantPos(bug) : \E c1 \in FullPaletteOf(p1) : \E k1 \in Calls :
            LET g1 == NextCfg(g0, a0, k1, p1, c1)
                a1 == NextArg(g0, a0, k1, p1)
                m1 == RM(bug, Meta(g0), g0, g1, p1)
            IN  \/ Broken(m1, g1)
                \/ \E p2 \in MutantPos(bug) : \E c2 \in FullPaletteOf(p2) : \E k2 \in Calls :
                       LET g2 == NextCfg(g1, a1, k2, p2, c2)
                       IN  Broken(RM(bug, m1, g1, g2, p2), g2)
MutantReport == \A b \in ToSet(Input.bugs) : PrintT(<<"V", "mutant", b, MutantCaught(b)>>)
ASSUME MutantReport

TypeOK == /\ sc \in 1 .. Len(Scen)
          /\ n \in 0 .. MaxLenOf(sc)
          /\ cfg \in [AllPos -> Classes]
          /\ \A p \in AllPos : cfg[p] \in FullPaletteOf(p)
          /\ arg \in [NestedPos -> Classes]
=============================================================================
