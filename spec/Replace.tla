------------------------------ MODULE Replace ------------------------------
(***************************************************************************)
(* replace_component / replace_component_with_obj (pymtl3/dsl/Component.py), *)
(* property C15.                                                           *)
(*                                                                         *)
(* A harness hierarchy has replaceable POSITIONS (plain child, list        *)
(* element, element of a 2-D list, grand-child); a configuration           *)
(*     cfg : Position -> Class                                             *)
(* says which class of a PALETTE of interface-compatible classes sits      *)
(* where.  The whole-design metadata kept at the top component is modelled *)
(* as a record `meta` of sets of ENTRIES; an entry is a tuple of NAMES and *)
(* a name is a pair <<tag, text>>:                                         *)
(*     tag = a position   the object lives below that position, text is    *)
(*                        its name relative to the position (".x.in_")     *)
(*     tag = ""           object of the fixed harness, text = full name    *)
(*     tag = "#"          a scalar ("lt", "gt", "in", "out", ...)          *)
(*     tag = "$"          only inside the per-class data: "this instance"  *)
(* An entry is LOCAL to a position when the class sitting there declares   *)
(* it (it is in Part(p, cfg[p])); every other entry belongs to the harness. *)
(* Harness entries may MENTION names below a position (a connection to a   *)
(* child's port, a parent block reading a child's port, a slice of a       *)
(* child's port that exists only because the parent uses it): these are    *)
(* the cross-boundary items that _delete_component saves by name and       *)
(* _add_component re-evaluates against the new object.                     *)
(*                                                                         *)
(* Primary fields (Input.fields):                                          *)
(*   comps sigs mports ifcs consts funcs   name sets                       *)
(*   sinfo   <<sig, kind, host component, parent signal | "-",             *)
(*             slice range "lo:hi" | "-">>                                 *)
(*   minfo   <<method port, role, host component>>                         *)
(*   phs     placeholder components                                        *)
(*   conn    <<host component, a, b>>   one connect() made in host         *)
(*   blks ff once                        update blocks and their kinds     *)
(*   rd wr calls  <<block, object>>                                        *)
(*   uu  <<blk, blk>>   rdu wru <<blk, "lt"|"gt", signal>>                 *)
(*   mc  <<x, y, "lt"|"eq">>             M/U method constraints            *)
(* Derived views (operator View): named objects, adjacency, key sets of    *)
(* the block dictionaries, value nets and method nets with their writers.  *)
(*                                                                         *)
(* The per-class local metadata and the harness metadata are DATA: the     *)
(* harness extracts them from freshly elaborated designs (one class in a   *)
(* reference position) and checks that the extraction is the same in every *)
(* position, i.e. that freshly built designs are compositional:            *)
(*     Meta(cfg) = Harness \cup UNION { Local[cfg[p]] renamed to p }       *)
(* Meta(cfg) is therefore the specification's image of "the design built   *)
(* from scratch with the replacement in place".                            *)
(*                                                                         *)
(* Actions Replace(pos, cls) / ReplaceWithObj(pos, cls): the two API calls *)
(* differ only in who constructs the new object and have the same abstract *)
(* effect ReplaceMeta.                                                     *)
(*                                                                         *)
(* Bug # "none" switches on a model-level mutant of ReplaceMeta (used by   *)
(* the harness as a canary: TLC must then report an invariant violation).  *)
(* HistOnly = TRUE drops the metadata component of the state so that the   *)
(* graph of (cfg, n) can be dumped compactly; its paths are the histories  *)
(* that the harness replays on the real code.                              *)
(***************************************************************************)
EXTENDS Naturals, Sequences, FiniteSets, TLC, Json, IOUtils, SequencesExt

CONSTANTS MaxLen,      \* bound on the length of a history
          Bug,         \* "none" or the name of a model-level mutant
          HistOnly,    \* TRUE: do not track metadata (history enumeration only)
          Kinds        \* "both": either API call at every step; "alt": replace_component at
                       \* even steps (0, 2, ..), replace_component_with_obj at odd steps

VARIABLES cfg, meta, n
vars == <<cfg, meta, n>>

---------------------------------------------------------------------------
\* Data

Input     == JsonDeserialize(IOEnv.VERIF_INPUT)
Positions == ToSet(Input.positions)          \* positions replaced in this run
Palette   == ToSet(Input.palette)            \* classes used in this run
AllPos    == ToSet(Input.allpos)             \* every position of the hierarchy
InitCfgs  == {[p \in AllPos |-> g[p]] : g \in ToSet(Input.inits)}   \* initial designs
PFields   == ToSet(Input.fields)
Classes   == DOMAIN Input.local

HarnessOf(f)  == ToSet(Input.harness[f])
LocalOf(c, f) == ToSet(Input.local[c][f])

None == <<"#", "<none>">>
Top  == <<"", "s">>

---------------------------------------------------------------------------
\* Names and entries

Rename(x, p)      == IF x[1] = "$" THEN <<p, x[2]>> ELSE x
RenameEntry(e, p) == [i \in DOMAIN e |-> Rename(e[i], p)]
Mentions(e, p)    == \E i \in DOMAIN e : e[i][1] = p

Part(p, c) == [f \in PFields |-> {RenameEntry(e, p) : e \in LocalOf(c, f)}]

\* the design built from scratch for configuration g
Meta(g) == [f \in PFields |->
              HarnessOf(f) \cup UNION {Part(p, g[p])[f] : p \in DOMAIN g}]

---------------------------------------------------------------------------
\* The replacement

\* model-level mutants (canaries)
BugKeeps(f) == \/ Bug = "wr_typo"          /\ f = "wru"
               \/ Bug = "no_l4_uncollect"  /\ f \in {"once", "mc"}
               \/ Bug = "ifc_kept"         /\ f = "ifcs"
               \/ Bug = "reads_kept"       /\ f = "rd"
               \/ Bug = "signals_kept"     /\ f = "sigs"
BugLoses(f, e, p) ==
    \/ Bug = "same_child_connection_lost" /\ f = "conn"
                                          /\ \A i \in 2 .. Len(e) : e[i][1] = p
    \/ Bug = "boundary_connection_lost"   /\ f = "conn"
    \/ Bug = "boundary_reads_lost"        /\ f = "rd"
    \/ Bug = "spawned_slice_lost"         /\ f = "sigs"

\* g is the configuration before the step
ReplaceMeta(m, g, p, c) ==
    [f \in PFields |->
        LET old      == {RenameEntry(e, p) : e \in LocalOf(g[p], f)}   \* declared by the old class
            kept     == {e \in m[f] : ~Mentions(e, p)}
            \* cross-boundary entries: not declared by the class being removed, but naming
            \* objects below p; saved by name before the old component is deleted and
            \* re-evaluated against the new one
            saved    == {e \in m[f] : Mentions(e, p)} \ old
            restored == IF Bug = "none" THEN saved ELSE {e \in saved : ~BugLoses(f, e, p)}
            leaked   == IF BugKeeps(f) THEN m[f] \cap old ELSE {}
            fresh    == {RenameEntry(e, p) : e \in LocalOf(c, f)}
        IN  kept \cup restored \cup fresh \cup leaked]

---------------------------------------------------------------------------
\* State machine

Init == /\ cfg \in InitCfgs
        /\ meta = IF HistOnly THEN {} ELSE Meta(cfg)
        /\ n = 0

\* top.replace_component(top.<pos>, cls): the new object is constructed by the API from the
\* constructor arguments of the old one
Replace(pos, cls) ==
    /\ IF Kinds = "both" THEN TRUE ELSE n % 2 = 0
    /\ n < MaxLen
    /\ cfg'  = [cfg EXCEPT ![pos] = cls]
    /\ meta' = IF HistOnly THEN meta ELSE ReplaceMeta(meta, cfg, pos, cls)
    /\ n'    = n + 1

\* top.replace_component_with_obj(top.<pos>, cls(...)): the caller constructs the new object;
\* same abstract effect
ReplaceWithObj(pos, cls) ==
    /\ IF Kinds = "both" THEN TRUE ELSE n % 2 = 1
    /\ n < MaxLen
    /\ cfg'  = [cfg EXCEPT ![pos] = cls]
    /\ meta' = IF HistOnly THEN meta ELSE ReplaceMeta(meta, cfg, pos, cls)
    /\ n'    = n + 1

Next == \E pos \in Positions, cls \in Palette :
            Replace(pos, cls) \/ ReplaceWithObj(pos, cls)

Spec == Init /\ [][Next]_vars

---------------------------------------------------------------------------
\* Derived views

NameFields == {"comps", "sigs", "mports", "ifcs", "consts", "funcs", "blks"}

Adj(m) == {<<e[2], e[3]>> : e \in m.conn} \cup {<<e[3], e[2]>> : e \in m.conn}

Nbrs(adj, S) == {e[2] : e \in {x \in adj : x[1] \in S}}

RECURSIVE Reach(_, _)
Reach(adj, S) == LET T == S \cup Nbrs(adj, S) IN IF T = S THEN S ELSE Reach(adj, T)

\* connected components (>= 2 members) that contain a node of `roots`
Components(adj, roots) ==
    LET start == roots \cap {e[1] : e \in adj}
        acc   == FoldLeft(LAMBDA a, x : IF x \in a.seen THEN a
                                        ELSE LET c == Reach(adj, {x})
                                             IN  [nets |-> a.nets \cup {c}, seen |-> a.seen \cup c],
                          [nets |-> {}, seen |-> {}], SetToSeq(start))
    IN  acc.nets

\* --- value nets: the writer of a net (ComponentLevel3._resolve_value_connections)
\* pymtl3 marks every object written by an update block (and, when a net gets its writer, every
\* other member of the net) as a writer that propagates to the nets it is a member of (set P);
\* signal ancestors of marked objects are marked without propagating (set Q).  A member v heads a
\* net when v is marked, is a constant, is a slice of a signal in P, or overlaps a sibling slice
\* in P.  Nets whose writer is known make their other members writers; iterate to the fixed point.
RangeOvl     == {<<r[1], r[2]>> : r \in ToSet(Input.rovl)}
Slices(m)    == {e \in m.sinfo : e[5][2] # "-"}
ParentRel(m) == {<<e[1], e[4]>> : e \in Slices(m)}                 \* <<slice, sliced signal>>
OvlRel(m)    == LET S == Slices(m)                                 \* overlapping sibling slices
                IN  {<<q[1][1], q[2][1]>> : q \in {r \in S \X S : /\ r[1][4] = r[2][4] /\ r[1][1] # r[2][1]
                                                                     /\ <<r[1][5][2], r[2][5][2]>> \in RangeOvl}}
ConstNames(m) == {e[1] : e \in m.consts}

ParentsOf(par, S) == {r[2] : r \in {x \in par : x[1] \in S}}

Candidates(net, P, Q, consts, par, ovl) ==
    (net \cap (P \cup Q \cup consts))
    \cup {r[1] : r \in {x \in par : x[1] \in net /\ x[2] \in P}}
    \cup {r[1] : r \in {x \in ovl : x[1] \in net /\ x[2] \in P}}

RECURSIVE Resolve(_, _, _, _, _, _, _)
Resolve(headless, headed, P, Q, consts, par, ovl) ==
    LET now == {net \in headless : Candidates(net, P, Q, consts, par, ovl) # {}}
    IN  IF now = {} THEN headed \cup {<<None, net>> : net \in headless}
        ELSE LET hd  == {<<CHOOSE v \in Candidates(net, P, Q, consts, par, ovl) : TRUE, net>> : net \in now}
                 rds == UNION {h[2] \ {h[1]} : h \in hd}
                 P2  == P \cup rds
                 Q2  == (Q \cup ParentsOf(par, rds)) \ P2
             IN  Resolve(headless \ now, headed \cup hd, P2, Q2, consts, par, ovl)

ValueNets(m) ==
    LET nets    == Components(Adj(m), {e[1] : e \in m.sigs})
        members == UNION nets
        written == {e[2] : e \in m.wr}
        phcomps == {e[1] : e \in m.phs}
        par     == ParentRel(m)
        \* top-level in-ports and out-ports of placeholders are writers by definition
        given   == {e[1] : e \in {x \in m.sinfo : (x[2][2] = "in"  /\ x[3] = Top)
                                                   \/ (x[2][2] = "out" /\ x[3] \in phcomps)}}
        P0      == written \cup (given \cap members)
        Q0      == ParentsOf(par, written) \ P0
    IN  Resolve(nets, {}, P0, Q0, ConstNames(m), par, OvlRel(m))

\* every net has at most one member that is written by a block or is a constant (else pymtl3
\* raises MultiWriterError)
UniqueWriter(m) ==
    LET nets    == Components(Adj(m), {e[1] : e \in m.sigs})
        written == {e[2] : e \in m.wr}
    IN  \A net \in nets : Cardinality((written \cup ConstNames(m)) \cap net) <= 1

\* --- method nets (ComponentLevel5._resolve_method_connections)
MethodNets(m) ==
    LET nets    == Components(Adj(m), {e[1] : e \in m.mports})
        phcomps == {e[1] : e \in m.phs}
        IsW(x)  == \E e \in m.minfo : /\ e[1] = x
                                      /\ \/ e[2][2] = "callee-impl"
                                         \/ e[2][2] = "callee" /\ e[3] \in phcomps
    IN  {<<IF \E x \in net : IsW(x) THEN CHOOSE x \in net : IsW(x) ELSE None, net>> : net \in nets}

View(m) ==
    [f \in PFields |-> m[f]] @@
    [named  |-> m.comps \cup m.sigs \cup m.mports \cup m.ifcs,
     adj    |-> Adj(m),
     hosted |-> m.blks, rdk |-> m.blks, wrk |-> m.blks, ck |-> m.blks,
     nets   |-> ValueNets(m),
     mnets  |-> MethodNets(m)]

---------------------------------------------------------------------------
\* Properties (C15)

\* names a class defines below a position
Defined(p, c) == UNION {{e[1] : e \in Part(p, c)[f]} : f \in NameFields \cap PFields}

NamesOf(m)    == UNION {UNION {{e[i] : i \in DOMAIN e} : e \in m[f]} : f \in PFields}
HarnessRec    == [f \in PFields |-> HarnessOf(f)]
HarnessNames  == NamesOf(HarnessRec)

\* history independence: the mutated design is the design built from scratch
HistoryIndependent == HistOnly \/ meta = Meta(cfg)

\* nothing named below a position that neither the class now sitting there defines nor the
\* harness mentions (stale names of removed components, dangling saved names)
NoLeftover == HistOnly \/ \A x \in NamesOf(meta) :
                              x[1] \in AllPos => x \in Defined(x[1], cfg[x[1]]) \cup HarnessNames

\* the palette is interface compatible: whatever the harness mentions below a position is
\* defined by every class, or is a slice of a signal defined by every class (so a saved name
\* can always be re-evaluated against the new object)
SameInterface ==
    \A p \in Positions, c \in Palette :
        \A x \in {y \in HarnessNames : y[1] = p} :
            \/ x \in Defined(p, c)
            \/ \E e \in HarnessOf("sinfo") : e[1] = x /\ e[4] \in Defined(p, c)

NetsWellFormed == HistOnly \/ UniqueWriter(meta)

TypeOK == /\ n \in 0 .. MaxLen
          /\ cfg \in [AllPos -> Classes]
=============================================================================
