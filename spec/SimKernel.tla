------------------------------ MODULE SimKernel ------------------------------
(***************************************************************************)
(* The RTL simulation kernel of pymtl3 as a state machine (DESIGN.md 3.4): *)
(* properties C01 (schedule independence), C02 (readers after writers),     *)
(* C07 (flip-flop atomicity), C11 (cyclic groups settle).                   *)
(*                                                                         *)
(* One action per linearisation point of the implementation:                *)
(*   RunComb(b)  one update block / one net-propagation step is called      *)
(*   Rerun(b)    a member of a cyclic group is called again (SCC loop)      *)
(*   EndPass     update_schedule has been walked; the pass is over          *)
(*   RunFF(b)    one update_ff block is called at the clock edge            *)
(*   Flip        the generated double_buffer() commits every register       *)
(* sim_eval_combinational = one pass; sim_tick = pass ; RunFF* ; Flip ; pass *)
(*                                                                         *)
(* Here the *specification's* scheduler is explored: any step whose         *)
(* MustPrecede-predecessors have run may run next (every linear extension   *)
(* of the bit-level partial order), flip-flop steps in every order.  TLC    *)
(* shows that all of them end in the same state, the unique solution        *)
(* Ref(D, v0) of the design's equations -- so "the values defined by the    *)
(* dataflow equations" exist and the relation MustPrecede is strong enough. *)
(* SimKernelTrace.tla then checks that recorded executions of the real      *)
(* schedulers are behaviours of this machine.                               *)
(*                                                                         *)
(* Designs come from JSON (IOEnv.VERIF_INPUT): Input.designs.               *)
(***************************************************************************)
EXTENDS DL, Json, IOUtils, TLC

Input   == JsonDeserialize(IOEnv.VERIF_INPUT)
Designs == Input.designs
MaxCyc  == Input.maxcyc

VARIABLES d,       \* which design (chosen in Init, never changes)
          val,     \* [cell -> Nat]   what every block can see
          nxt,     \* [cell -> Nat]   pending values of the double-buffered cells
          phase,   \* "comb" | "settled" | "ff" | "flipped"
          done,    \* comb steps executed in this pass
          ffdone,  \* flip-flop steps executed at this edge
          v0,      \* state at the start of the current pass / edge (for the reference)
          cyc      \* clock edges so far
vars == <<d, val, nxt, phase, done, ffdone, v0, cyc>>

D == Designs[d]

ReachOf == TLCEval([i \in DOMAIN Designs |-> Reach(Designs[i])])
InCycle(i, b)    == <<b, b>> \in ReachOf[i]
SameGroup(i, a, b) == a = b \/ (<<a, b>> \in ReachOf[i] /\ <<b, a>> \in ReachOf[i])

Inputs(X) == {s \in DOMAIN X.sigs : X.sigs[s].inp}
\* all assignments of the input cells, everything else as in v
\* (a poke reaches every alias of the input, e.g. a child in-port connected to it)
RECURSIVE PokeAll(_, _, _, _)
PokeAll(X, v, f, ss) == IF ss = {} THEN v
                        ELSE LET s == CHOOSE x \in ss : TRUE
                             IN  PokeAll(X, WriteCell(X.sigs[s].al, v, f[s]), f, ss \ {s})
Poked(X, v) == {PokeAll(X, v, f, Inputs(X)) :
                  f \in {g \in [Inputs(X) -> 0 .. 3] : \A s \in Inputs(X) : g[s] < Pow2(X.sigs[s].w)}}
                \* model designs use input widths <= 2

Init == /\ d \in DOMAIN Designs
        /\ val \in Poked(Designs[d], [s \in DOMAIN Designs[d].sigs |-> Designs[d].sigs[s].init])
        /\ nxt = val
        /\ phase = "comb" /\ done = {} /\ ffdone = {} /\ v0 = val /\ cyc = 0

Ready(b) == \A a \in CombSteps(D) : (MustPrecede(D, a, b) /\ ~SameGroup(d, a, b)) => a \in done

RunComb(b) == /\ phase = "comb" /\ b \in CombSteps(D) /\ b \notin done /\ Ready(b)
              /\ val' = Exec(D, b, val) /\ done' = done \cup {b}
              /\ UNCHANGED <<d, nxt, phase, ffdone, v0, cyc>>

\* a member of a cyclic group may run again as long as running it changes something
Rerun(b)   == /\ phase = "comb" /\ b \in done /\ InCycle(d, b) /\ Ready(b)
              /\ Exec(D, b, val) # val
              /\ val' = Exec(D, b, val)
              /\ UNCHANGED <<d, nxt, phase, done, ffdone, v0, cyc>>

EndPass    == /\ phase = "comb" /\ done = CombSteps(D)
              /\ \A b \in CombSteps(D) : InCycle(d, b) => Exec(D, b, val) = val
              /\ phase' = "settled"
              /\ UNCHANGED <<d, val, nxt, done, ffdone, v0, cyc>>

StartEdge  == /\ phase = "settled" /\ cyc < MaxCyc
              /\ phase' = "ff" /\ ffdone' = {} /\ v0' = val /\ nxt' = val
              /\ UNCHANGED <<d, val, done, cyc>>

RunFF(b)   == /\ phase = "ff" /\ b \in FFSteps(D) /\ b \notin ffdone
              /\ nxt' = ExecFF(D, b, val, nxt) /\ ffdone' = ffdone \cup {b}
              /\ UNCHANGED <<d, val, phase, done, v0, cyc>>

Flip       == /\ phase = "ff" /\ ffdone = FFSteps(D)
              /\ val' = Commit(D, val, nxt) /\ phase' = "flipped"
              /\ UNCHANGED <<d, nxt, done, ffdone, v0, cyc>>

\* second pass of the tick, with new input values for the next cycle
NextPass   == /\ phase = "flipped"
              /\ val' \in Poked(D, val)
              /\ phase' = "comb" /\ done' = {} /\ v0' = val' /\ cyc' = cyc + 1
              /\ UNCHANGED <<d, nxt, ffdone>>

\* end of the bounded exploration (keeps deadlock checking meaningful: any other state without a
\* successor is a pass that can neither continue nor end)
Stop       == phase = "settled" /\ cyc = MaxCyc /\ UNCHANGED vars

SomeRunComb == \E b \in Steps(D) : RunComb(b)
SomeRerun   == \E b \in Steps(D) : Rerun(b)
SomeRunFF   == \E b \in Steps(D) : RunFF(b)

Next == \/ SomeRunComb \/ SomeRerun \/ SomeRunFF
        \/ EndPass \/ StartEdge \/ Flip \/ NextPass \/ Stop

Spec == Init /\ [][Next]_vars

---------------------------------------------------------------------------
\* C01: every interleaving ends in the unique solution of the equations, which is a fixed point
Confluence  == phase = "settled" => (val = Ref(D, v0) /\ Stable(D, val))
\* C07: no flip-flop step is visible before the edge; the edge commits F(pre-edge state)
FFInvisible == phase = "ff" => val = v0
FFAtomic    == phase = "flipped" => val = EdgeRef(D, v0)
\* C02: exactly once when acyclic (done is a set and RunComb requires b \notin done), and the
\* explicit constraints are honoured
ExplicitHonoured == \A p \in Explicit(D) : (p[2] \in done /\ ~SameGroup(d, p[1], p[2])) => p[1] \in done
\* C11: a pass never ends (EndPass is never enabled) in a state that is not a fixed point, and
\* the model never deadlocks before the pass can end for bit-level acyclic designs
SettledIsStable == phase = "settled" => Stable(D, val)
=============================================================================
