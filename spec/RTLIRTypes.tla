----------------------------- MODULE RTLIRTypes -----------------------------
(***************************************************************************)
(* Width inference of the translatable update-block language (property     *)
(* C10), after the rule table of docs/ref/datatypes.rst:                   *)
(*                                                                         *)
(*   BitsN object           explicit width N                               *)
(*   int object             inferred width = least number of bits holding  *)
(*                          the value (0 needs 1 bit)            BitLen    *)
(*   + - * / % & | ^        max(n, m)   both explicit: widths must agree   *)
(*                          one explicit: the inferred side is zero-       *)
(*                          extended to it, never truncated                *)
(*                          both inferred: inferred result                 *)
(*   << >>                  width (and explicitness) of the left operand   *)
(*   ~ + -  (unary)         width (and explicitness) of the operand        *)
(*   == != < <= > >=        1                                              *)
(*   reduce_and/or/xor      1                                              *)
(*   j if i else k          m where m == p                                 *)
(*   concat(i, .., j)       n + .. + m                                     *)
(*   i[j]                   1              i[j:k]   k - j                  *)
(*   zext/sext/trunc(i, N)  N   (N >= n resp. N <= n)                      *)
(*   BitsN(i)               N   (explicit cast, may change the width)      *)
(*   loop variable          BitLen(max of the range), inferred             *)
(*   temporary variable     width / explicitness of the assigned value     *)
(*   bitstruct              sum of the widths of its fields       NBits    *)
(*   list field [..[T]*n1..]*nk   (packed array)  n1 * .. * nk * width(T)  *)
(*   s.f  (field)           width of the declared type of field f          *)
(*   a[i] (a a list field)  one dimension less: width(a) / n1              *)
(*   struct @= vector, vector @= struct    widths must agree (a struct is  *)
(*                          explicitly sized);  T(x, .., y): width of T,   *)
(*                          every argument sized like the field it fills   *)
(*                                                                         *)
(* Part 1 (pure): one rule operator per node kind.  Each takes the `Info`  *)
(* records of the children and returns the Info of the node:               *)
(*   w     width (0: the node carries no width, e.g. a statement)          *)
(*   ex    explicitly sized?   kv/val  statically known small int value    *)
(*   cst   compile-time constant (kv = FALSE: too large for TLC integers)  *)
(*   st    bitstruct typed?                                                *)
(*   ty    the shape (BitStruct.tla: Leaf(w) | Struct(fs) | List(n, t));   *)
(*         a multi-dimensional list field is a List of Lists               *)
(*   mis   ExplicitMismatch: two explicitly sized operands of an           *)
(*         arithmetic/bitwise/comparison/conditional/assignment node       *)
(*         differ in width                                                 *)
(*   trunc an inferred operand would have to be truncated to the explicit  *)
(*         context  (implicit truncation is not allowed)                   *)
(*   bad   other static errors (slice bounds, zext to fewer bits, ...)     *)
(*   cchg  explicit width-changing BitsN(..) cast                          *)
(*   sune  shift amount narrower / wider than the shifted value            *)
(* RTLIRTypesTrace.tla folds these operators over the flattened AST of     *)
(* real update blocks.                                                     *)
(*                                                                         *)
(* Part 2 (model): expressions over small leaves are built by wrapping     *)
(* actions up to depth MaxDepth and assigned to a signal of width `tw`;    *)
(* an executable value semantics of the Bits / int operators (Eval) is     *)
(* used to check, for EVERY environment, that W is the run-time width and  *)
(* that a well-typed, unexcused block cannot raise a width error.          *)
(***************************************************************************)
EXTENDS Naturals, Integers, Sequences, FiniteSets, TLC

\* shapes of bitstruct types and their packed width (shared with C06)
BS == INSTANCE BitStruct WITH Shape <- [k |-> "leaf", w |-> 1], Names <- {}, objs <- <<>>
LeafT(w) == [k |-> "leaf", w |-> w]

Max(a, b) == IF a >= b THEN a ELSE b
Min(a, b) == IF a <= b THEN a ELSE b

\* least number of bits that holds v  (0 <= v < 2^30;  0 and 1 need 1 bit)
BitLenNat(v) == IF v < 2 THEN 1 ELSE CHOOSE n \in 2 .. 30 : 2^(n-1) <= v /\ v < 2^n
SmallLimit == 2^30

\* big literals arrive as limbs base 2^15, least significant first, no leading zero limb
LimbsOK(l)     == Len(l) >= 1 /\ (\A i \in 1 .. Len(l) : l[i] >= 0 /\ l[i] < 32768)
                  /\ (Len(l) > 1 => l[Len(l)] > 0)
BitLenLimbs(l) == 15 * (Len(l) - 1) + BitLenNat(l[Len(l)])
LimbsSmall(l)  == Len(l) <= 2
LimbsVal(l)    == IF Len(l) = 1 THEN l[1] ELSE l[1] + 32768 * l[2]

Clog2(n) == IF n <= 1 THEN 1 ELSE BitLenNat(n - 1)     \* index width of an n-bit vector

---------------------------------------------------------------------------
\* Info records

Info(w, ex, kv, val, st) ==
    [w |-> w, ex |-> ex, kv |-> kv, val |-> val, st |-> st, cst |-> kv, ty |-> LeafT(w),
     mis |-> FALSE, trunc |-> FALSE, bad |-> FALSE, cchg |-> FALSE, sune |-> FALSE]
\* a value of shape T: its width is the packed width of the shape
TyInfo(T, ex) == [Info(BS!NBits(T), ex, FALSE, 0, T.k = "struct") EXCEPT !.ty = T]
IsList(i)     == i.ty.k = "list"            \* a (partially indexed) list field: a packed array
NonVec(i)     == i.st \/ IsList(i)
NoInfo == Info(0, TRUE, FALSE, 0, FALSE)              \* statements
Unsup  == [Info(0, FALSE, FALSE, 0, FALSE) EXCEPT !.cst = TRUE]   \* expression outside the model

MaxOps   == {"+", "-", "*", "/", "%", "**", "&", "|", "^"}
ShiftOps == {"<<", ">>"}
CmpOps   == {"==", "!=", "<", "<=", ">", ">="}
UnOps    == {"~", "+", "-"}

BitAnd1(a, b, n) == LET RECURSIVE F(_)
                        F(i) == IF i = n THEN 0
                                ELSE (IF (a \div 2^i) % 2 = 1 /\ (b \div 2^i) % 2 = 1 THEN 2^i ELSE 0) + F(i + 1)
                    IN  F(0)

\* constant folding on small non-negative ints (Python int semantics); unknown otherwise
FoldOK(op, a, b) ==
    /\ a.kv /\ b.kv /\ a.val >= 0 /\ b.val >= 0
    /\ CASE op = "+"  -> a.val + b.val < SmallLimit
         [] op = "-"  -> a.val >= b.val
         [] op = "*"  -> a.val < 32768 /\ b.val < 32768
         [] op = "%"  -> b.val > 0
         [] op \in {"&", "|", "^"} -> TRUE
         [] op = "<<" -> b.val <= 14 /\ a.val < 32768
         [] op = ">>" -> b.val <= 29
         [] OTHER     -> FALSE
FoldVal(op, a, b) ==
    CASE op = "+"  -> a.val + b.val
      [] op = "-"  -> a.val - b.val
      [] op = "*"  -> a.val * b.val
      [] op = "%"  -> a.val % b.val
      [] op = "&"  -> BitAnd1(a.val, b.val, 30)
      [] op = "|"  -> a.val + b.val - BitAnd1(a.val, b.val, 30)
      [] op = "^"  -> a.val + b.val - 2 * BitAnd1(a.val, b.val, 30)
      [] op = "<<" -> a.val * 2^b.val
      [] op = ">>" -> a.val \div 2^b.val
      [] OTHER     -> 0

SigInfo(w, st)  == Info(w, TRUE, FALSE, 0, st)
NumInfoV(v)     == Info(BitLenNat(v), FALSE, TRUE, v, FALSE)
NumInfoL(l)     == IF LimbsSmall(l) THEN Info(BitLenLimbs(l), FALSE, TRUE, LimbsVal(l), FALSE)
                   ELSE [Info(BitLenLimbs(l), FALSE, FALSE, 0, FALSE) EXCEPT !.cst = TRUE]
BConstInfoL(w, l) == [Info(w, TRUE, LimbsSmall(l), IF LimbsSmall(l) THEN LimbsVal(l) ELSE 0, FALSE)
                        EXCEPT !.bad = BitLenLimbs(l) > w, !.cst = TRUE]

CastInfo(n, a) == [Info(n, TRUE, a.kv, a.val, FALSE) EXCEPT !.cchg = (a.w # n), !.bad = NonVec(a), !.cst = a.cst]

\* invert of a constant leaves the non-negative ints: value not modelled; a negated constant is
\* only used as the step of a range
UnInfo(op, a) == [Info(a.w, a.ex, op \in {"+", "-"} /\ a.kv, IF op = "-" THEN 0 - a.val ELSE a.val, FALSE)
                    EXCEPT !.bad = NonVec(a), !.cst = a.cst]

\* the inferred operand `i` meets the explicitly sized operand `e`
TruncBy(e, i) == i.w > e.w

BinInfo(op, a, b) ==
    LET both == a.ex /\ b.ex
        none == ~a.ex /\ ~b.ex
        fold == FoldOK(op, a, b)
        v    == FoldVal(op, a, b)
        w    == IF none /\ fold THEN BitLenNat(v) ELSE Max(a.w, b.w)
    IN  IF none /\ a.cst /\ b.cst /\ ~fold THEN Unsup    \* folded by Python, value outside TLC's ints
        ELSE
        [Info(w, a.ex \/ b.ex, fold, IF fold THEN v ELSE 0, FALSE)
           EXCEPT !.cst   = a.cst /\ b.cst,
                  !.mis   = both /\ a.w # b.w,
                  !.trunc = (a.ex /\ ~b.ex /\ TruncBy(a, b)) \/ (b.ex /\ ~a.ex /\ TruncBy(b, a)),
                  !.bad   = NonVec(a) \/ NonVec(b)]

ShiftInfo(op, a, b) ==
    LET fold == FoldOK(op, a, b)
        v    == FoldVal(op, a, b)
        \* an inferred left operand and a foldable result: the width of the folded value, also when
        \* the shift amount is an explicitly sized constant
        w    == IF ~a.ex /\ fold THEN BitLenNat(v) ELSE a.w
    IN  IF ~a.ex /\ a.cst /\ b.cst /\ ~fold THEN Unsup
        ELSE
        [Info(w, a.ex, fold, IF fold THEN v ELSE 0, FALSE)
           EXCEPT !.cst  = a.cst /\ b.cst,
                  !.sune = (a.ex /\ b.ex /\ a.w # b.w) \/ (a.ex /\ ~b.ex /\ b.w > a.w)
                           \/ (~a.ex /\ b.ex),
                  !.bad  = NonVec(a) \/ NonVec(b)]

CmpInfo(a, b) ==
    [Info(1, TRUE, FALSE, 0, FALSE)
       EXCEPT !.mis   = a.ex /\ b.ex /\ a.w # b.w,
              !.trunc = (a.ex /\ ~b.ex /\ TruncBy(a, b)) \/ (b.ex /\ ~a.ex /\ TruncBy(b, a))]

IfExpInfo(c, a, b) ==
    \* two branches of the same struct / list type give that type
    [Info(Max(a.w, b.w), a.ex \/ b.ex, FALSE, 0, a.st)
       EXCEPT !.ty    = IF NonVec(a) THEN a.ty ELSE LeafT(Max(a.w, b.w)),
              !.mis   = a.ex /\ b.ex /\ a.w # b.w /\ ~NonVec(a) /\ ~NonVec(b),
              !.trunc = (a.ex /\ ~b.ex /\ TruncBy(a, b)) \/ (b.ex /\ ~a.ex /\ TruncBy(b, a)),
              !.bad   = NonVec(c) \/ (a.ty.k # b.ty.k) \/ (NonVec(a) /\ a.ty # b.ty)]

SumW(ws) == LET RECURSIVE S(_)
                S(i) == IF i = 0 THEN 0 ELSE ws[i] + S(i - 1)
            IN  S(Len(ws))
ConcatInfo(as) ==       \* as: sequence of Infos (at most a few dozen operands)
    [Info(SumW([i \in 1 .. Len(as) |-> as[i].w]), TRUE, FALSE, 0, FALSE)
       EXCEPT !.bad = \E i \in 1 .. Len(as) : ~as[i].ex \/ NonVec(as[i])]

ZextInfo(n, a)  == [Info(n, TRUE, FALSE, 0, FALSE) EXCEPT !.bad = n < a.w \/ ~a.ex \/ NonVec(a)]
SextInfo(n, a)  == ZextInfo(n, a)
TruncInfo(n, a) == [Info(n, TRUE, FALSE, 0, FALSE) EXCEPT !.bad = n > a.w \/ ~a.ex \/ NonVec(a)]
ReduceInfo(a)   == [Info(1, TRUE, FALSE, 0, FALSE) EXCEPT !.bad = ~a.ex \/ NonVec(a)]

\* i[j] on a vector: one bit.  A constant index must be in range.
BitInfo(a, i) == [Info(1, TRUE, FALSE, 0, FALSE)
                    EXCEPT !.bad = NonVec(a) \/ ~a.ex \/ (i.kv /\ ~(0 <= i.val /\ i.val < a.w))]
\* element of an array of n signals of shape T
ElemInfo(n, T, i) == [TyInfo(T, TRUE) EXCEPT !.bad = i.kv /\ ~(0 <= i.val /\ i.val < n)]
\* i[lo:hi] with constant bounds
SliceInfo(a, lo, hi) ==
    IF lo.kv /\ hi.kv
    THEN [Info(Max(hi.val - lo.val, 0), TRUE, FALSE, 0, FALSE)
            EXCEPT !.bad = NonVec(a) \/ ~a.ex \/ ~(0 <= lo.val /\ lo.val < hi.val /\ hi.val <= a.w)]
    ELSE NoInfo

\* ---- bitstructs and their list fields (packed arrays) --------------------------------
\* a signal / constant of shape T (a BitsN signal is SigInfoT(LeafT(N)))
SigInfoT(T) == TyInfo(T, TRUE)
HasField(T, f) == T.k = "struct" /\ \E j \in 1 .. Len(T.fs) : T.fs[j].n = f
FieldT(T, f)   == T.fs[CHOOSE j \in 1 .. Len(T.fs) : T.fs[j].n = f].t
\* a.f: the declared type of field f; explicitly sized whatever the field is
FieldInfo(a, f) == IF a.w > 0 /\ HasField(a.ty, f) THEN TyInfo(FieldT(a.ty, f), TRUE) ELSE Unsup
\* a[i] on a list field: one dimension less -- the element type, or a list again
IndexWidth(n) == Clog2(n)
ItemInfo(a, i) ==
    IF a.w > 0 /\ IsList(a)
    THEN [TyInfo(a.ty.t, TRUE)
            EXCEPT !.bad = (i.kv /\ ~(0 <= i.val /\ i.val < a.ty.n))
                           \/ (i.ex /\ i.w # IndexWidth(a.ty.n)) \/ (~i.ex /\ i.w > IndexWidth(a.ty.n))]
    ELSE Unsup
\* T( x, .., y ): a struct instance; every argument fills one field (declaration order)
StructInstInfo(T, as) ==
    IF T.k # "struct" \/ Len(as) # Len(T.fs) THEN Unsup
    ELSE LET fw(j) == BS!NBits(T.fs[j].t)
         IN  [TyInfo(T, TRUE)
                EXCEPT !.mis   = \E j \in 1 .. Len(as) : as[j].ex /\ as[j].w # fw(j),
                       !.trunc = \E j \in 1 .. Len(as) : ~as[j].ex /\ as[j].w > fw(j),
                       !.bad   = \E j \in 1 .. Len(as) : T.fs[j].t.k # "leaf" \/ NonVec(as[j])]

\* for v in range(s, e, st): the loop variable
RangeMax(s, e, st) == IF st > 0 THEN s + ((e - 1 - s) \div st) * st ELSE s
RangeEmpty(s, e, st) == IF st > 0 THEN s >= e ELSE s <= e
ForInfo(s, e, st) ==
    IF s.kv /\ e.kv /\ st.kv
    THEN IF st.val = 0 \/ s.val < 0 \/ e.val < 0
         THEN [NoInfo EXCEPT !.bad = TRUE]
         ELSE LET m == IF RangeEmpty(s.val, e.val, st.val)
                       THEN Max(Max(s.val, e.val), st.val)
                       ELSE RangeMax(s.val, e.val, st.val)
              IN  Info(BitLenNat(m), FALSE, FALSE, 0, FALSE)
    ELSE NoInfo                                   \* bounds not statically small: not modelled
LoopVarInfo(f) == f
TmpInfo(v)     == [Info(v.w, v.ex, FALSE, 0, v.st) EXCEPT !.ty = v.ty]

\* target @= value  (t: the target's Info;  a fresh temporary has t.w = 0)
\* a bitstruct is explicitly sized: struct @= struct, struct @= vector and vector @= struct all need
\* equal widths (two structs: the same type); a list field is assigned element by element only
AssignInfo(t, v) ==
    [NoInfo EXCEPT !.mis   = t.w > 0 /\ v.w > 0 /\ v.ex /\ t.w # v.w /\ ~IsList(t) /\ ~IsList(v),
                   !.trunc = t.w > 0 /\ ~v.ex /\ v.w > t.w,
                   !.bad   = t.w > 0 /\ v.w > 0 /\ (IsList(t) \/ IsList(v) \/ (t.st /\ v.st /\ t.ty # v.ty)
                                                   \/ (t.st /\ ~v.ex))]

ExplicitMismatch(i) == i.mis
LocallyOK(i)        == ~i.mis /\ ~i.trunc /\ ~i.bad
Excuses(i)          == i.cchg \/ i.sune

---------------------------------------------------------------------------
\* Part 2: the small exhaustive model

CONSTANTS SigWidths,     \* widths of the available signals, e.g. {1, 2, 3}
          Nums,          \* integer literals, e.g. {0, 1, 3, 4}
          LoopHi,        \* set of loop bounds: a leaf "lv" ranges over 0 .. hi
          TargetWidths,  \* widths of the assigned signal
          MaxDepth

VARIABLES e,    \* the expression (a tree of records)
          d,    \* its depth
          tw    \* width of the assignment target:  s.out @= e
vars == <<e, d, tw>>

Leaves == {[k |-> "sig", w |-> w] : w \in SigWidths}
          \cup {[k |-> "num", v |-> v] : v \in Nums}
          \cup {[k |-> "lv", hi |-> h] : h \in LoopHi}

RECURSIVE TInfo(_)
TInfo(x) ==
    CASE x.k = "sig"    -> SigInfo(x.w, FALSE)
      [] x.k = "num"    -> NumInfoV(x.v)
      [] x.k = "lv"     -> ForInfo(NumInfoV(0), NumInfoV(x.hi + 1), NumInfoV(1))
      [] x.k = "unop"   -> UnInfo(x.op, TInfo(x.a))
      [] x.k = "binop"  -> BinInfo(x.op, TInfo(x.a), TInfo(x.b))
      [] x.k = "shift"  -> ShiftInfo(x.op, TInfo(x.a), TInfo(x.b))
      [] x.k = "cmp"    -> CmpInfo(TInfo(x.a), TInfo(x.b))
      [] x.k = "ifexp"  -> IfExpInfo(TInfo(x.c), TInfo(x.a), TInfo(x.b))
      [] x.k = "concat" -> ConcatInfo(<<TInfo(x.a), TInfo(x.b)>>)
      [] x.k = "zext"   -> ZextInfo(x.n, TInfo(x.a))
      [] x.k = "trunc"  -> TruncInfo(x.n, TInfo(x.a))
      [] x.k = "reduce" -> ReduceInfo(TInfo(x.a))
      [] x.k = "cast"   -> CastInfo(x.n, TInfo(x.a))
      [] x.k = "slice"  -> SliceInfo(TInfo(x.a), NumInfoV(x.lo), NumInfoV(x.hi))

RECURSIVE AllOK(_)
AllOK(x) ==
    /\ LocallyOK(TInfo(x)) /\ TInfo(x) # Unsup
    /\ CASE x.k \in {"sig", "num", "lv"} -> TRUE
         [] x.k \in {"unop", "zext", "trunc", "reduce", "cast", "slice"} -> AllOK(x.a)
         [] x.k = "ifexp" -> AllOK(x.c) /\ AllOK(x.a) /\ AllOK(x.b)
         [] OTHER -> AllOK(x.a) /\ AllOK(x.b)
RECURSIVE AnyExcuse(_)
AnyExcuse(x) ==
    \/ Excuses(TInfo(x))
    \/ CASE x.k \in {"sig", "num", "lv"} -> FALSE
         [] x.k \in {"unop", "zext", "trunc", "reduce", "cast", "slice"} -> AnyExcuse(x.a)
         [] x.k = "ifexp" -> AnyExcuse(x.c) \/ AnyExcuse(x.a) \/ AnyExcuse(x.b)
         [] OTHER -> AnyExcuse(x.a) \/ AnyExcuse(x.b)
RECURSIVE AnyMismatch(_)
AnyMismatch(x) ==
    \/ TInfo(x).mis
    \/ CASE x.k \in {"sig", "num", "lv"} -> FALSE
         [] x.k \in {"unop", "zext", "trunc", "reduce", "cast", "slice"} -> AnyMismatch(x.a)
         [] x.k = "ifexp" -> AnyMismatch(x.c) \/ AnyMismatch(x.a) \/ AnyMismatch(x.b)
         [] OTHER -> AnyMismatch(x.a) \/ AnyMismatch(x.b)

TargetInfo      == SigInfo(tw, FALSE)
BlockInfo       == AssignInfo(TargetInfo, TInfo(e))
WellTyped       == AllOK(e) /\ LocallyOK(BlockInfo)
Excused         == AnyExcuse(e)
BlockMismatch   == AnyMismatch(e) \/ BlockInfo.mis

\* ---- value semantics (PythonBits.py / Python ints) --------------------------------
\* values:  [t |-> "b", n, v]  Bits n with value v    [t |-> "i", v]  Python int
\*          [t |-> "x"]  a raised bit-width ValueError  [t |-> "o"]  any other exception
B(n, v)  == [t |-> "b", n |-> n, v |-> v % 2^n]
I(v)     == [t |-> "i", n |-> 0, v |-> v]
WErr     == [t |-> "x", n |-> 0, v |-> 0]
OErr     == [t |-> "o", n |-> 0, v |-> 0]
IsErr(x) == x.t \in {"x", "o"}
FirstErr(x, y) == IF IsErr(x) THEN x ELSE y

MaxOf(S) == IF S = {} THEN 0 ELSE CHOOSE m \in S : \A x \in S : x <= m
Envs == [SigWidths -> 0 .. 2^MaxOf(SigWidths) - 1] \X (0 .. MaxOf(LoopHi))   \* signal values, loop iteration
EnvOK(env) == \A w \in SigWidths : env[1][w] < 2^w

Arith(op, a, b, n) ==          \* on naturals, result reduced by the caller
    CASE op = "+" -> a + b
      [] op = "-" -> a - b + 2^n
      [] op = "*" -> a * b
      [] op = "&" -> BitAnd1(a, b, n)
      [] op = "|" -> a + b - BitAnd1(a, b, n)
      [] op = "^" -> a + b - 2 * BitAnd1(a, b, n)

BinVal(op, x, y) ==
    IF IsErr(x) \/ IsErr(y) THEN FirstErr(x, y)
    ELSE IF x.t = "b" /\ y.t = "b" THEN (IF x.n # y.n THEN WErr ELSE B(x.n, Arith(op, x.v, y.v, x.n)))
    ELSE IF x.t = "b" THEN (IF y.v >= 2^x.n THEN WErr ELSE B(x.n, Arith(op, x.v, y.v, x.n)))
    ELSE IF y.t = "b" THEN (IF x.v >= 2^y.n THEN WErr ELSE B(y.n, Arith(op, x.v, y.v, y.n)))
    ELSE I(Arith(op, x.v, y.v, 12))

ShiftVal(op, x, y) ==
    IF IsErr(x) \/ IsErr(y) THEN FirstErr(x, y)
    ELSE LET sh(v, k, n) == IF op = "<<" THEN (IF k >= n THEN 0 ELSE v * 2^k) ELSE (IF k >= n THEN 0 ELSE v \div 2^k)
         IN  IF x.t = "b" /\ y.t = "b" THEN (IF x.n # y.n THEN WErr ELSE B(x.n, sh(x.v, y.v, x.n)))
             ELSE IF x.t = "b" THEN (IF y.v >= 2^x.n THEN WErr ELSE B(x.n, sh(x.v, y.v, x.n)))
             ELSE IF y.t = "b" THEN OErr                   \* int << Bits is a TypeError
             ELSE I(sh(x.v, Min(y.v, 12), 13))

CmpVal(op, x, y) ==
    IF IsErr(x) \/ IsErr(y) THEN FirstErr(x, y)
    ELSE LET r == IF op = "==" THEN x.v = y.v ELSE x.v < y.v
             bit == IF r THEN 1 ELSE 0
         IN  IF x.t = "b" /\ y.t = "b" THEN (IF x.n # y.n THEN WErr ELSE B(1, bit))
             ELSE IF x.t = "b" THEN (IF y.v >= 2^x.n THEN WErr ELSE B(1, bit))
             ELSE IF y.t = "b" THEN (IF x.v >= 2^y.n THEN WErr ELSE B(1, bit))
             ELSE I(bit)

RECURSIVE Eval(_, _)
Eval(x, env) ==
    CASE x.k = "sig"    -> B(x.w, env[1][x.w])
      [] x.k = "num"    -> I(x.v)
      [] x.k = "lv"     -> I(Min(env[2], x.hi))
      [] x.k = "unop"   -> LET a == Eval(x.a, env)
                           IN  IF IsErr(a) THEN a ELSE IF a.t = "b" THEN B(a.n, 2^a.n - 1 - a.v) ELSE OErr
      [] x.k = "binop"  -> BinVal(x.op, Eval(x.a, env), Eval(x.b, env))
      [] x.k = "shift"  -> ShiftVal(x.op, Eval(x.a, env), Eval(x.b, env))
      [] x.k = "cmp"    -> CmpVal(x.op, Eval(x.a, env), Eval(x.b, env))
      [] x.k = "ifexp"  -> LET c == Eval(x.c, env)
                           IN  IF IsErr(c) THEN c ELSE IF c.v # 0 THEN Eval(x.a, env) ELSE Eval(x.b, env)
      [] x.k = "concat" -> LET a == Eval(x.a, env)
                               b == Eval(x.b, env)
                           IN  IF IsErr(a) \/ IsErr(b) THEN FirstErr(a, b)
                               ELSE IF a.t # "b" \/ b.t # "b" THEN OErr
                               ELSE B(a.n + b.n, a.v * 2^b.n + b.v)
      [] x.k = "zext"   -> LET a == Eval(x.a, env)
                           IN  IF IsErr(a) THEN a ELSE IF a.t # "b" \/ x.n < a.n THEN OErr ELSE B(x.n, a.v)
      [] x.k = "trunc"  -> LET a == Eval(x.a, env)
                           IN  IF IsErr(a) THEN a ELSE IF a.t # "b" \/ x.n > a.n THEN OErr ELSE B(x.n, a.v)
      [] x.k = "reduce" -> LET a == Eval(x.a, env)
                           IN  IF IsErr(a) THEN a ELSE IF a.t # "b" THEN OErr ELSE B(1, IF a.v # 0 THEN 1 ELSE 0)
      [] x.k = "cast"   -> LET a == Eval(x.a, env)
                           IN  IF IsErr(a) THEN a
                               ELSE IF a.t = "b" THEN (IF a.n # x.n THEN WErr ELSE a)
                               ELSE IF a.v >= 2^x.n THEN WErr ELSE B(x.n, a.v)
      [] x.k = "slice"  -> LET a == Eval(x.a, env)
                           IN  IF IsErr(a) THEN a
                               ELSE IF a.t # "b" \/ ~(0 <= x.lo /\ x.lo < x.hi /\ x.hi <= a.n) THEN OErr
                               ELSE B(x.hi - x.lo, a.v \div 2^x.lo)

\* s.out @= e   with out : Bits tw
Exec(env) == LET r == Eval(e, env)
             IN  IF IsErr(r) THEN r
                 ELSE IF r.t = "b" THEN (IF r.n # tw THEN WErr ELSE r)
                 ELSE IF r.v >= 2^tw THEN WErr ELSE B(tw, r.v)

GoodEnvs == {env \in Envs : EnvOK(env)}

\* ---- the state machine: wrap the current expression ---------------------------------
Init == e \in Leaves /\ d = 0 /\ tw \in TargetWidths

Small == Leaves     \* the sibling operand of a wrapping step

Deeper == d < MaxDepth /\ d' = d + 1 /\ tw' = tw

MkUn      == e' = [k |-> "unop", op |-> "~", a |-> e] /\ Deeper
MkBinL(op, y)  == e' = [k |-> "binop", op |-> op, a |-> e, b |-> y] /\ Deeper
MkBinR(op, y)  == e' = [k |-> "binop", op |-> op, a |-> y, b |-> e] /\ Deeper
MkShiftL(op, y) == e' = [k |-> "shift", op |-> op, a |-> e, b |-> y] /\ Deeper
MkShiftR(op, y) == e' = [k |-> "shift", op |-> op, a |-> y, b |-> e] /\ Deeper
MkCmpL(op, y) == e' = [k |-> "cmp", op |-> op, a |-> e, b |-> y] /\ Deeper
MkCmpR(op, y) == e' = [k |-> "cmp", op |-> op, a |-> y, b |-> e] /\ Deeper
MkIfA(c, y)   == e' = [k |-> "ifexp", c |-> c, a |-> e, b |-> y] /\ Deeper
MkIfB(c, y)   == e' = [k |-> "ifexp", c |-> c, a |-> y, b |-> e] /\ Deeper
MkConcat(y)   == e' = [k |-> "concat", a |-> e, b |-> y] /\ Deeper
MkZext(n)     == e' = [k |-> "zext", n |-> n, a |-> e] /\ Deeper
MkTrunc(n)    == e' = [k |-> "trunc", n |-> n, a |-> e] /\ Deeper
MkReduce      == e' = [k |-> "reduce", a |-> e] /\ Deeper
MkCast(n)     == e' = [k |-> "cast", n |-> n, a |-> e] /\ Deeper
MkSlice(lo, hi) == e' = [k |-> "slice", a |-> e, lo |-> lo, hi |-> hi] /\ Deeper
Retarget(w)   == tw' = w /\ w # tw /\ UNCHANGED <<e, d>>

ModelBinOps == {"+", "&", "*"}
Conds == {[k |-> "sig", w |-> w] : w \in {CHOOSE w \in SigWidths : \A u \in SigWidths : w <= u}}

Next == \/ MkUn \/ MkReduce
        \/ \E op \in ModelBinOps, y \in Small : MkBinL(op, y) \/ MkBinR(op, y)
        \/ \E op \in ShiftOps, y \in Small : MkShiftL(op, y) \/ MkShiftR(op, y)
        \/ \E op \in {"==", "<"}, y \in Small : MkCmpL(op, y) \/ MkCmpR(op, y)
        \/ \E c \in Conds, y \in Small : MkIfA(c, y) \/ MkIfB(c, y)
        \/ \E y \in Small : MkConcat(y)
        \/ \E n \in TargetWidths : MkZext(n) \/ MkTrunc(n) \/ MkCast(n)
        \/ \E lo \in 0 .. 2, hi \in 1 .. 3 : MkSlice(lo, hi)
        \/ \E w \in TargetWidths : Retarget(w)

Spec == Init /\ [][Next]_vars

\* ---- invariants ---------------------------------------------------------------------
\* Python evaluates an operator on two ints with unbounded precision.  Where the checker cannot
\* fold the result (loop variables, if-expressions and comparisons of ints) the rule table still
\* gives it a bounded width.  The invariants are stated separately for expressions with and
\* without such a node, so that a violation names the mechanism.
\* A violated invariant of this module says that the RULE TABLE is unsound with respect to the
\* value semantics below.  It becomes a verdict about pymtl3 only through the harness, which
\* renders every counterexample state (e, tw) as a real update block `s.o<tw> @= e` and
\* compares checker and simulator on it (props/c10.py, _spec_to_code).
IntArithNode(x) == /\ x.k \in {"binop", "shift"} /\ ~TInfo(x).kv
                   /\ \E env \in GoodEnvs : Eval(x.a, env).t = "i" /\ Eval(x.b, env).t = "i"
RECURSIVE HasIntArith(_)
HasIntArith(x) ==
    \/ IntArithNode(x)
    \/ CASE x.k \in {"sig", "num", "lv"} -> FALSE
         [] x.k \in {"unop", "zext", "trunc", "reduce", "cast", "slice"} -> HasIntArith(x.a)
         [] x.k = "ifexp" -> HasIntArith(x.c) \/ HasIntArith(x.a) \/ HasIntArith(x.b)
         [] OTHER -> HasIntArith(x.a) \/ HasIntArith(x.b)

\* W is defined (>= 1) for every well-typed expression
WDefined == AllOK(e) => TInfo(e).w >= 1

\* the static width is the run-time width: an explicitly sized expression evaluates to Bits of
\* exactly that width; an int result is held by the width W gives it
WidthIsRuntime ==
    \A env \in GoodEnvs :
       LET r == Eval(e, env)
           i == TInfo(e)
       IN  /\ r.t = "b" => i.ex /\ r.n = i.w
           /\ r.t = "i" => r.v < 2^i.w
WidthIsRuntimeWidth              == (AllOK(e) /\ ~HasIntArith(e)) => WidthIsRuntime
WidthIsRuntimeWidth_InferredArith == (AllOK(e) /\ HasIntArith(e)) => WidthIsRuntime

\* a folded constant: the inferred width is the width of the folded value
ConstWidthIsRuntimeWidth ==
    (AllOK(e) /\ TInfo(e).kv /\ ~TInfo(e).ex)
       => \A env \in GoodEnvs : LET r == Eval(e, env)
                                 IN  r.t = "i" => r.v = TInfo(e).val /\ r.v < 2^TInfo(e).w

\* accepted code has no width errors (casts and unequal shifts excepted)
NoWidthErr == \A env \in GoodEnvs : Exec(env).t # "x"
NoWidthError               == (WellTyped /\ ~Excused /\ ~HasIntArith(e)) => NoWidthErr
NoWidthError_InferredArith == (WellTyped /\ ~Excused /\ HasIntArith(e)) => NoWidthErr

\* re-sizing an inferred constant to the explicit context never truncates it
ResizeNeverTruncates ==
    (WellTyped /\ ~Excused /\ ~TInfo(e).ex /\ TInfo(e).kv) => TInfo(e).val < 2^tw

\* an ExplicitMismatch of an arithmetic / comparison root raises whenever both operands are Bits
\* at run time (a comparison of two ints is a Python bool)
MismatchRaises ==
    (e.k \in {"binop", "cmp"} /\ TInfo(e).mis /\ AllOK(e.a) /\ AllOK(e.b) /\ ~AnyExcuse(e))
        => \A env \in GoodEnvs :
              (Eval(e.a, env).t = "b" /\ Eval(e.b, env).t = "b") => Exec(env).t = "x"

\* projection printed for the spec -> code replay
Proj == [w |-> TInfo(e).w, ex |-> TInfo(e).ex, ok |-> WellTyped, mis |-> BlockMismatch, exc |-> Excused]
=============================================================================
