---------------------------- MODULE AdapterTrace ----------------------------
(***************************************************************************)
(* Trace validation for the adapter part of C17: offer histories recorded  *)
(* from the real adapter classes (and from the connect-time hooks that     *)
(* insert them) are checked to be behaviours of Adapter.tla; end-to-end    *)
(* histories of compositions adapter + library queue + adapter are checked *)
(* to be behaviours of Channel.tla with the summed capacity.               *)
(*                                                                         *)
(* Trace := [kind: one of Adapter!Kinds | "chan", cf: 0/1 (ClearFirst),    *)
(*           cap: Nat (kind "chan": capacity of the composition),          *)
(*           ev: Seq(Event)]                                               *)
(* Event := [k |-> "cycle",                                                *)
(*           eo, do, rst : 0/1    offers of producer / consumer, reset     *)
(*           m      : Int         offered message (serial number) if eo    *)
(*           er, dr : 0/1/2       ready towards the producer / message     *)
(*                                available for the consumer as the        *)
(*                                adapter showed it (2 = not observable)   *)
(*           ex, dx : 0/1         a message moved in / out (FL producer:   *)
(*                                ex = a blocking call started)            *)
(*           ret    : 0/1/2       FL producer: the blocking call returned  *)
(*           dm     : Int         message seen by the consumer (-1: none)  *)
(*           c2     : Int         messages in flight after the cycle (-1)  *)
(*           ent2, clr2 : 0/1/2   buffer occupied / sent-and-to-be-cleared *)
(*                                after the cycle (white box; 2 = n/a)     *)
(*           pb, cb : 0/1         producer / consumer blocked in an FL     *)
(*                                call after the cycle                     *)
(*           bad    : STRING      "" or a problem seen by the driver ]     *)
(*        | [k |-> "empty"]       kind "chan": the driver has drained the  *)
(*                                composition (consumer ready, no offers,  *)
(*                                for longer than its depth): nothing may  *)
(*                                be left in flight                        *)
(* For kind "chan" only eo, m, do, ex, dx, dm, bad are looked at.          *)
(***************************************************************************)
EXTENDS Integers, Sequences, FiniteSets, TLC, Json, IOUtils

A  == INSTANCE Adapter WITH KindSet <- {}, kind <- "and", cfirst <- TRUE, Msgs <- {}, MaxHist <- 0,
                            st <- <<>>, out <- <<>>, accepted <- <<>>, delivered <- <<>>
Ch == INSTANCE Channel WITH Caps <- {}, cap <- 0, Msgs <- {}, MaxHist <- 0, q <- <<>>, accepted <- <<>>, delivered <- <<>>
   \* only the pure operators are used

Input  == JsonDeserialize(IOEnv.VERIF_INPUT)
Traces == Input.traces

VARIABLES tid, l, err, fin, st, q, nacc, ndel
tvars == <<tid, l, err, fin, st, q, nacc, ndel>>

T  == Traces[tid]
Ev == T.ev[l]
B(x) == x = 1
Range(s) == {s[i] : i \in DOMAIN s}

Init == /\ tid \in 1 .. Len(Traces)
        /\ l = 1 /\ err = "ok" /\ fin = FALSE
        /\ st = A!St0 /\ q = <<>> /\ nacc = 0 /\ ndel = 0

Fail(c) == err' = c /\ UNCHANGED <<tid, l, fin, st, q, nacc, ndel>>

\* one cycle of an adapter (or of a design in which a connect hook inserted it)
CycleEv ==
    /\ Ev.k = "cycle" /\ T.kind # "chan"
    /\ LET k   == T.kind
           cf  == B(T.cf)
           eo  == B(Ev.eo)
           do  == B(Ev.do)
           m   == Ev.m
           o   == A!Outputs(k, cf, st, eo, m, do, B(Ev.rst))
           s2  == A!Step(k, cf, st, eo, m, do, B(Ev.rst)).st
           fl  == A!InFlight(st)
       IN  IF k \notin A!Kinds \/ Ev.er \notin {0, 1, 2} \/ Ev.dr \notin {0, 1, 2}
                                                        THEN Fail("bad-trace")
           ELSE IF Ev.bad # ""                          THEN Fail(Ev.bad)
           ELSE IF ~A!Legal(st, eo, do)                 THEN Fail("bad-trace-offer-changed-while-blocked")
           ELSE IF Ev.c2 > A!CapOf(k)                   THEN Fail("occupancy-exceeds-capacity")
           ELSE IF Ev.er # 2 /\ B(Ev.er) # o.enq_rdy    THEN Fail(IF o.enq_rdy THEN "enq-rdy-low-but-kind-says-ready"
                                                                               ELSE "enq-rdy-high-but-kind-says-not-ready")
           ELSE IF Ev.dr # 2 /\ B(Ev.dr) # o.deq_rdy    THEN Fail(IF o.deq_rdy THEN "deq-rdy-low-but-kind-says-ready"
                                                                               ELSE "deq-rdy-high-but-kind-says-not-ready")
           ELSE IF B(Ev.ex) # o.enq_xfer                THEN Fail(IF o.enq_xfer THEN "message-not-accepted"
                                                                                ELSE "accepted-without-offer-or-room")
           ELSE IF B(Ev.dx) # o.deq_xfer                THEN Fail(IF o.deq_xfer THEN "message-not-delivered"
                                                                                ELSE "delivery-without-offer-or-message")
           ELSE IF o.deq_xfer /\ Ev.dm = -1             THEN Fail("delivered-message-missing")
           ELSE IF Ev.dm # -1 /\ o.deq_msg # <<Ev.dm>>  THEN Fail(IF Ev.dm \in Range(fl) \/ (eo /\ Ev.dm = m)
                                                                  THEN "wrong-message-out-of-order"
                                                                  ELSE "wrong-message-not-in-flight")
           ELSE IF Ev.ret # 2 /\ B(Ev.ret) # o.ret      THEN Fail(IF o.ret THEN "blocking-call-did-not-return"
                                                                           ELSE "blocking-call-returned-early")
           ELSE IF B(Ev.pb) # o.pblk                    THEN Fail("producer-blocked-mismatch")
           ELSE IF B(Ev.cb) # o.cblk                    THEN Fail("consumer-blocked-mismatch")
           ELSE IF Ev.c2 # -1 /\ Ev.c2 # o.count2       THEN Fail("wrong-occupancy-after-cycle")
           ELSE IF Ev.ent2 # 2 /\ Ev.ent2 # o.ent2      THEN Fail("wrong-buffer-state")
           ELSE IF Ev.clr2 # 2 /\ B(Ev.clr2) # o.clr2   THEN Fail("wrong-clear-state")
           ELSE /\ st' = s2
                /\ nacc' = nacc + (IF o.enq_xfer THEN 1 ELSE 0)
                /\ ndel' = ndel + (IF o.deq_xfer THEN 1 ELSE 0)
                /\ l' = l + 1 /\ UNCHANGED <<tid, err, fin, q>>

\* one cycle of a composition, seen from its two ends: only the channel property is demanded
ChanEv ==
    /\ Ev.k = "cycle" /\ T.kind = "chan"
    /\ LET acc == B(Ev.ex)
           del == B(Ev.dx)
           m   == Ev.m
       IN  IF Ev.bad # ""                               THEN Fail(Ev.bad)
           ELSE IF acc /\ ~B(Ev.eo)                     THEN Fail("accepted-without-offer")
           ELSE IF del /\ ~B(Ev.do)                     THEN Fail("delivery-without-offer-or-message")
           ELSE IF del /\ q = <<>> /\ ~acc              THEN Fail("delivery-without-offer-or-message")
           ELSE IF acc /\ ~del /\ Len(q) >= T.cap       THEN Fail("occupancy-exceeds-capacity")
           ELSE IF ~Ch!StepOK(T.cap, q, acc, del)       THEN Fail("occupancy-exceeds-capacity")
           ELSE IF del /\ Ev.dm = -1                    THEN Fail("delivered-message-missing")
           ELSE IF del /\ Ev.dm # Ch!DelMsg(q, acc, m)  THEN Fail(IF Ev.dm \in Range(q) \/ (acc /\ Ev.dm = m)
                                                                  THEN "wrong-message-out-of-order"
                                                                  ELSE "wrong-message-not-in-flight")
           ELSE /\ q' = Ch!NextQ(q, acc, m, del)
                /\ nacc' = nacc + (IF acc THEN 1 ELSE 0)
                /\ ndel' = ndel + (IF del THEN 1 ELSE 0)
                /\ l' = l + 1 /\ UNCHANGED <<tid, err, fin, st>>

EmptyEv ==
    /\ Ev.k = "empty"
    /\ IF T.kind = "chan" /\ q # <<>>                       THEN Fail("message-stuck-in-composition")
       ELSE IF T.kind # "chan" /\ A!InFlight(st) # <<>>     THEN Fail("message-stuck-in-adapter")
       ELSE l' = l + 1 /\ UNCHANGED <<tid, err, fin, st, q, nacc, ndel>>

Other == /\ Ev.k \notin {"cycle", "empty"} /\ Fail("unknown-event")

Finish == /\ ~fin /\ (err # "ok" \/ l > Len(T.ev))
          /\ PrintT(<<"V", tid, err, l>>)
          /\ PrintT(<<"T", tid, nacc, ndel>>)
          /\ fin' = TRUE /\ UNCHANGED <<tid, l, err, st, q, nacc, ndel>>

Next == \/ /\ ~fin /\ err = "ok" /\ l <= Len(T.ev)
           /\ (CycleEv \/ ChanEv \/ EmptyEv \/ Other)
        \/ Finish

Spec == Init /\ [][Next]_tvars
=============================================================================
