------------------------------- MODULE VcdMC -------------------------------
(***************************************************************************)
(* The tiny instance on which Vcd.tla is model checked exhaustively, and   *)
(* whose behaviours are replayed on the real design `Tiny` of              *)
(* harness/vcd_designs.py (spec -> code):                                  *)
(*   top:  clk reset a(1) b(2) d(2)      sub:  clk reset c(2),  sub.c = b  *)
(* nets: K = {clk, sub.clk}  R = {reset, sub.reset} (never changes)        *)
(*       A = {a}  B = {b, sub.c} (shared between two levels)  D = {d}      *)
(***************************************************************************)
EXTENDS Vcd

MC_Sigs  == {"clk", "reset", "a", "b", "d", "sub.clk", "sub.reset", "sub.c"}
MC_Width == [s \in MC_Sigs |-> IF s \in {"b", "d", "sub.c"} THEN 2 ELSE 1]
MC_SymOf == [s \in MC_Sigs |->
               CASE s \in {"clk", "sub.clk"}     -> "K"
                 [] s \in {"reset", "sub.reset"} -> "R"
                 [] s = "a"                      -> "A"
                 [] s \in {"b", "sub.c"}         -> "B"
                 [] s = "d"                      -> "D"]
MC_Dom   == [n \in {"R", "A", "B", "D"} |->
               CASE n = "R" -> {"0"}
                 [] n = "A" -> {"0", "1"}
                 [] n = "B" -> {"00", "01", "10", "11"}
                 [] n = "D" -> {"00", "10"}]
=============================================================================
