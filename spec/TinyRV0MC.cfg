SPECIFICATION Spec
CONSTANTS Mode = "mc"
 Regs = {0, 1}
 PLen = 2
 MaxSteps = 6
INVARIANT TypeOK
INVARIANT X0IsZero
INVARIANT PcAligned
INVARIANT OneGuard
PROPERTY OutGrows
PROPERTY InShrinks
PROPERTY OnlyRdMoves
PROPERTY OnlySwWrites
PROPERTY PcRule
PROPERTY StoppedStays
CHECK_DEADLOCK FALSE
