-------------------------- MODULE BitStructTrace --------------------------
(***************************************************************************)
(* Trace validation for C06: histories recorded from real bitstruct        *)
(* objects (classes made by @bitstruct / mk_bitstruct for random shapes    *)
(* up to 1023 bits) are checked to be behaviours of BitStruct.tla.         *)
(* Batch protocol as in ArbiterTrace: `tid` picks the trace, `l` the       *)
(* position; every event action is total (a mismatch sets `err`), Finish   *)
(* prints one verdict per trace.                                           *)
(*                                                                         *)
(* Trace := [shape, ev : Seq(Event)]       three objects "x", "y", "z";    *)
(*          an object is live once it was the destination of frombits /    *)
(*          default / clone / deepcopy.  The shape is the one the harness  *)
(*          DECLARED; the class is whatever pymtl3 returned for that       *)
(*          declaration (possibly after other declarations under the same  *)
(*          class name, see BitStructDecl.tla).                            *)
(* Event := an action record of BitStruct.tla (op in frombits, default,    *)
(*          assignbits, nbassign, nbassignbits, flip, clone, deepcopy,     *)
(*          mutate) plus  post : [live object name -> value], the values   *)
(*          of ALL live objects read field by field after the call         *)
(*        | [op |-> "pack", d, bits]      bits = d.to_bits()               *)
(*        | [op |-> "nbits", n]           n = cls.nbits                    *)
(*        | [op |-> "layout", entries]    entries: Seq([path, lo, hi]),    *)
(*                  measured on the real class by setting one leaf to all  *)
(*                  ones and looking at to_bits(); most significant first  *)
(*        | [op |-> "eq", a, b, res]      res = (a == b), and not (a != b) *)
(*        | [op |-> "hash", a, b, same]   same = (hash(a) == hash(b))      *)
(* Values and bit vectors as in BitStruct.tla (bits LSB first).            *)
(***************************************************************************)
EXTENDS Naturals, Integers, Sequences, FiniteSets, TLC, Json, IOUtils

B == INSTANCE BitStruct WITH Shape <- [k |-> "leaf", w |-> 1], Names <- {}, objs <- <<>>

Input  == JsonDeserialize(IOEnv.VERIF_INPUT)
Traces == Input.traces
Nm     == {"x", "y", "z"}

VARIABLES tid, l, err, fin, st, live
tvars == <<tid, l, err, fin, st, live>>

T  == Traces[tid].shape
Ev == Traces[tid].ev[l]

Init == /\ tid \in 1 .. Len(Traces)
        /\ l = 1 /\ err = "ok" /\ fin = FALSE
        /\ st = [n \in Nm |-> B!Obj(B!Zero(Traces[tid].shape))]
        /\ live = {}

Fail(c)  == err' = c /\ UNCHANGED <<tid, l, fin, st, live>>
Skip     == l' = l + 1 /\ UNCHANGED <<tid, err, fin, st, live>>

StateOps == {"frombits", "default", "assign", "assignbits", "nbassign", "nbassignbits", "flip", "clone",
             "deepcopy", "mutate"}
Creating == {"frombits", "default", "clone", "deepcopy"}
HasSrc   == {"assign", "nbassign", "clone", "deepcopy"}

ActEv ==
    /\ Ev.op \in StateOps
    /\ IF ~B!WellFormed(T) THEN Fail("bad-trace-shape")
       ELSE IF ~(Ev.d \in Nm) \/ (Ev.op \notin Creating /\ Ev.d \notin live)
               \/ (Ev.op \in HasSrc /\ Ev.s \notin live)           THEN Fail("bad-trace-object-not-live")
       ELSE IF ~B!Enabled(T, st, Ev)                               THEN Fail("bad-trace-not-enabled")
       ELSE LET st2   == B!Step(T, st, Ev)
                live2 == live \cup {Ev.d}
            IN  IF DOMAIN Ev.post # live2                          THEN Fail("bad-trace-post-domain")
                ELSE IF Ev.post[Ev.d] # st2[Ev.d].cur              THEN Fail(Ev.op \o "-wrong-result")
                ELSE IF \E n \in live2 \ {Ev.d} : Ev.post[n] # st2[n].cur
                                                                   THEN Fail(Ev.op \o "-changed-another-object")
                ELSE /\ st' = st2 /\ live' = live2
                     /\ l' = l + 1 /\ UNCHANGED <<tid, err, fin>>

PackEv ==
    /\ Ev.op = "pack"
    /\ IF Ev.d \notin live                                         THEN Fail("bad-trace-object-not-live")
       ELSE IF Ev.bits # B!Pack(T, st[Ev.d].cur)                   THEN Fail("to_bits-wrong")
       ELSE Skip

NBitsEv ==
    /\ Ev.op = "nbits"
    /\ IF Ev.n # B!NBits(T) THEN Fail("nbits-wrong") ELSE Skip

LayoutEv ==
    /\ Ev.op = "layout"
    /\ LET L == B!Layout(T)
       IN  IF Ev.entries # [i \in 1 .. Len(L) |-> [path |-> L[i].path, lo |-> L[i].lo, hi |-> L[i].hi]]
           THEN Fail("layout-wrong") ELSE Skip

EqEv ==
    /\ Ev.op = "eq"
    /\ IF Ev.a \notin live \/ Ev.b \notin live                      THEN Fail("bad-trace-object-not-live")
       ELSE IF Ev.res # B!EqObj(T, st, Ev.a, Ev.b)                  THEN Fail("eq-disagrees-with-packed-value")
       ELSE Skip

HashEv ==
    /\ Ev.op = "hash"
    /\ IF Ev.a \notin live \/ Ev.b \notin live                      THEN Fail("bad-trace-object-not-live")
       ELSE IF B!EqObj(T, st, Ev.a, Ev.b) /\ ~Ev.same               THEN Fail("hash-differs-for-equal-values")
       ELSE Skip

Other == /\ Ev.op \notin StateOps \cup {"pack", "nbits", "layout", "eq", "hash"}
         /\ Fail("bad-trace-unknown-event")

Finish == /\ ~fin /\ (err # "ok" \/ l > Len(Traces[tid].ev))
          /\ PrintT(<<"V", tid, err, l>>)
          /\ fin' = TRUE /\ UNCHANGED <<tid, l, err, st, live>>

Next == \/ /\ ~fin /\ err = "ok" /\ l <= Len(Traces[tid].ev)
           /\ (ActEv \/ PackEv \/ NBitsEv \/ LayoutEv \/ EqEv \/ HashEv \/ Other)
        \/ Finish

Spec == Init /\ [][Next]_tvars
=============================================================================
