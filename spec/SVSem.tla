------------------------------- MODULE SVSem -------------------------------
(***************************************************************************)
(* Executable two-state semantics of the SystemVerilog / Verilog subset    *)
(* the pymtl3 back ends emit (C03, C12).  IEEE 1800-2017 clauses           *)
(*   5.7.1   sized / unsized integer literals (unsized = 32 bit signed)    *)
(*   6.24.1  size cast N'(e): e evaluated at max(N, L(e)) bits with its    *)
(*           own signedness, truncated to N; signedness passes through     *)
(*   7.2.1   packed structs (first member most significant)                *)
(*   7.4     packed / unpacked arrays, indexing, invalid index (7.4.6)     *)
(*   10.3, 10.4, 10.7  continuous / blocking / non-blocking assignment,    *)
(*           right-hand side evaluated at max(L(lhs), L(rhs)) bits         *)
(*   11.4    operators; 11.4.10 shift amount always unsigned;              *)
(*   11.5    bit / part / indexed part selects (unsigned results)          *)
(*   11.6    expression bit lengths: self-determined length SelfW, context *)
(*           width pushed down by Eval                                     *)
(*   11.8    signedness Sgn (11.8.1) and propagation: an operand is sign-  *)
(*           extended only if the propagated type is signed (11.8.2)       *)
(*   12.4    if: a condition that is zero, x or z is false                 *)
(*   12.7.1  for loop (int unsigned loop variable, or an integer variable) *)
(*   23.3.3  port connections = continuous assignments (harness/svelab.py) *)
(*   23.6    hierarchical reference inst.signal (harness/svelab.py)        *)
(* Not modelled (the parser raises SVUnsupported = machinery failure when  *)
(* the text contains them): 4-state values other than the X marker below,  *)
(* signed vectors / literals, <<< >>> === !==, case, while, functions,     *)
(* tasks, generate, parameters of modules, inout, latches, several clocks, *)
(* negedge, delays, strengths, variable initialisers.                      *)
(*                                                                         *)
(* A design `d` is the JSON value produced by harness/svelab.py:           *)
(*   d.types   [name |-> [fields |-> Seq([n, ty])]]  first field = MSBs    *)
(*   d.vars    [name |-> [ty |-> [base, pd, ud, sg], kind]]                *)
(*   d.varorder, d.params (Seq [n, init: Seq(expr)]), d.comb, d.ff         *)
(*   d.uns     TRUE = ignore signedness (every operand unsigned)           *)
(* A value is a sequence of bits, least significant first; a state maps    *)
(* every variable to the sequence of its unpacked elements (row major).    *)
(* A variable nobody drives keeps its initial value 0 (two-state).  The    *)
(* bit value 2 marks an X (division by zero, out-of-range read); it is     *)
(* propagated by every operator and never compares equal to a recorded     *)
(* PyMTL value.                                                            *)
(***************************************************************************)
EXTENDS Integers, Sequences, FiniteSets, TLC, SequencesExt

Max2(a, b) == IF a >= b THEN a ELSE b
Min2(a, b) == IF a <= b THEN a ELSE b
Idx(n)     == [i \in 1..n |-> i]
Fill(n, x) == [i \in 1..n |-> x]
Zeros(n)   == Fill(n, 0)
Prod(s)    == FoldLeft(LAMBDA a, x : a * x, 1, s)
MaxIter    == 4096

(***************************************************************************)
(* Bit vectors                                                             *)
(***************************************************************************)
Msb(b) == IF Len(b) = 0 THEN 0 ELSE b[Len(b)]
Resize(b, w, sg) ==
    IF Len(b) >= w THEN SubSeq(b, 1, w)
    ELSE b \o Fill(w - Len(b), IF sg THEN Msb(b) ELSE 0)
NonZero(b) == \E i \in 1..Len(b) : b[i] # 0
Small(b)   == \A i \in 1..Len(b) : i > 30 => b[i] = 0
NatOf(b)   == FoldLeft(LAMBDA a, i : a + (IF b[i] = 1 THEN 2^(i-1) ELSE 0), 0, Idx(Min2(Len(b), 30)))
BitsOf(n, w) == [i \in 1..w |-> IF i <= 30 THEN (n \div 2^(i-1)) % 2 ELSE 0]

BNot(a) == [i \in 1..Len(a) |-> 1 - a[i]]
BAnd(a, b) == [i \in 1..Len(a) |-> IF a[i] = 1 /\ b[i] = 1 THEN 1 ELSE 0]
BOr(a, b)  == [i \in 1..Len(a) |-> IF a[i] = 1 \/ b[i] = 1 THEN 1 ELSE 0]
BXor(a, b) == [i \in 1..Len(a) |-> IF a[i] # b[i] THEN 1 ELSE 0]
AddC(a, b, cin) ==
    FoldLeft(LAMBDA acc, i : LET s == a[i] + b[i] + acc[2]
                              IN  <<Append(acc[1], s % 2), s \div 2>>,
             << <<>>, cin >>, Idx(Len(a)))[1]
Add(a, b) == AddC(a, b, 0)
Sub(a, b) == AddC(a, BNot(b), 1)
Neg(a)    == AddC(Zeros(Len(a)), BNot(a), 1)
Shl(a, n) == IF n >= Len(a) THEN Zeros(Len(a)) ELSE Zeros(n) \o SubSeq(a, 1, Len(a) - n)
Shr(a, n) == IF n >= Len(a) THEN Zeros(Len(a)) ELSE SubSeq(a, n + 1, Len(a)) \o Zeros(n)
Mul(a, b) ==
    FoldLeft(LAMBDA acc, i : IF b[i] = 1 THEN Add(acc, Shl(a, i - 1)) ELSE acc,
             Zeros(Len(a)), Idx(Len(a)))
ULt(a, b) == FoldLeft(LAMBDA lt, i : IF a[i] = b[i] THEN lt ELSE a[i] < b[i], FALSE, Idx(Len(a)))
SLt(a, b) == IF Msb(a) # Msb(b) THEN Msb(a) = 1 ELSE ULt(a, b)
\* unsigned long division; b # 0.  Result <<quotient, remainder>>, both Len(a) bits.
UDivMod(a, b) ==
    LET w  == Len(a)
        bb == b \o <<0>>
        step(acc, k) ==
            LET i  == w + 1 - k
                r2 == <<a[i]>> \o SubSeq(acc[2], 1, w)
            IN  IF ULt(r2, bb) THEN <<acc[1], r2>>
                ELSE <<[acc[1] EXCEPT ![i] = 1], Sub(r2, bb)>>
        res == FoldLeft(step, <<Zeros(w), Zeros(w + 1)>>, Idx(w))
    IN  <<res[1], SubSeq(res[2], 1, w)>>
SDivMod(a, b) ==      \* truncation towards zero, remainder has the sign of the dividend
    LET na == Msb(a) = 1
        nb == Msb(b) = 1
        qr == UDivMod(IF na THEN Neg(a) ELSE a, IF nb THEN Neg(b) ELSE b)
    IN  <<IF na # nb THEN Neg(qr[1]) ELSE qr[1], IF na THEN Neg(qr[2]) ELSE qr[2]>>
X(w) == Fill(w, 2)
Div(a, b, sg) == IF ~NonZero(b) THEN X(Len(a)) ELSE IF sg THEN SDivMod(a, b)[1] ELSE UDivMod(a, b)[1]
Mod(a, b, sg) == IF ~NonZero(b) THEN X(Len(a)) ELSE IF sg THEN SDivMod(a, b)[2] ELSE UDivMod(a, b)[2]
HighBit(b) == FoldLeft(LAMBDA h, i : IF b[i] # 0 THEN i ELSE h, 0, Idx(Len(b)))
Pow(a, b) ==          \* unsigned, modulo 2^Len(a); square and multiply over the bits of b
    FoldLeft(LAMBDA acc, i : << IF b[i] = 1 THEN Mul(acc[1], acc[2]) ELSE acc[1],
                                Mul(acc[2], acc[2]) >>,
             << Resize(<<1>>, Len(a), FALSE), a >>, Idx(HighBit(b)))[1]
RedAnd(b) == IF \A i \in 1..Len(b) : b[i] = 1 THEN 1 ELSE 0
RedOr(b)  == IF \E i \in 1..Len(b) : b[i] = 1 THEN 1 ELSE 0
RedXor(b) == FoldLeft(LAMBDA p, i : IF b[i] = 1 THEN 1 - p ELSE p, 0, Idx(Len(b)))
HasX(b)   == \E i \in 1..Len(b) : b[i] \notin {0, 1}

(***************************************************************************)
(* Types: packed width of a base type / a (packed dims, base) pair         *)
(***************************************************************************)
RECURSIVE BaseW(_, _)
BaseW(d, base) ==
    IF base = "logic" THEN 1
    ELSE FoldLeft(LAMBDA a, f : a + Prod(f.ty.pd) * BaseW(d, f.ty.base), 0, d.types[base].fields)
PackW(d, pd, base) == Prod(pd) * BaseW(d, base)
\* bit offset (from the LSB) of member f of struct `base`: the members after it
FieldOff(d, base, f) ==
    LET fs == d.types[base].fields
        k  == CHOOSE k \in 1..Len(fs) : fs[k].n = f
    IN  FoldLeft(LAMBDA a, j : IF j > k THEN a + PackW(d, fs[j].ty.pd, fs[j].ty.base) ELSE a, 0, Idx(Len(fs)))
HasField(d, base, f) ==
    /\ base # "logic" /\ base \in DOMAIN d.types
    /\ \E k \in 1..Len(d.types[base].fields) : d.types[base].fields[k].n = f
FieldTy(d, base, f) ==
    LET fs == d.types[base].fields IN fs[CHOOSE k \in 1..Len(fs) : fs[k].n = f].ty

RefK == {"id", "idx", "field", "range", "psel"}
Arith == {"+", "-", "*", "/", "%", "&", "|", "^"}
Cmp   == {"==", "!=", "<", "<=", ">", ">="}

(***************************************************************************)
(* Expressions.  C = [d, st, env, nb, err]; env maps the loop variables    *)
(* declared in a for-header (int unsigned) to their 32-bit values.         *)
(*   SelfW  self-determined bit length (11.6.1)                            *)
(*   Sgn    signedness (11.8.1)                                            *)
(*   Eval(e, w, sg, C)  value of e in a context of w >= SelfW(e) bits whose*)
(*          propagated type is signed iff sg (11.8.2)                      *)
(*   Ref    location denoted by a reference expression                     *)
(***************************************************************************)
RECURSIVE SelfW(_, _), Sgn(_, _), Eval(_, _, _, _), Ref(_, _), IdxVal(_, _)

EvalSelf(e, C) == Eval(e, SelfW(e, C), Sgn(e, C), C)
IsLoopVar(e, C) == e.k = "id" /\ e.n \in DOMAIN C.env

\* integer value of an index / shift amount / replication count; -1 = negative, 2^30 = huge
IdxVal(e, C) ==
    LET b == EvalSelf(e, C)
    IN  IF HasX(b) THEN -1
        ELSE IF Sgn(e, C) /\ Msb(b) = 1 THEN -1
        ELSE IF ~Small(b) THEN 2^30 ELSE NatOf(b)

\* 11.4.10: the right operand of a shift is always treated as an unsigned number
UVal(e, C) ==
    LET b == EvalSelf(e, C)
    IN  IF HasX(b) THEN -1 ELSE IF ~Small(b) THEN 2^30 ELSE NatOf(b)

BadRef == [v |-> "", el |-> 0, ud |-> <<>>, lo |-> 0, pd |-> <<>>, base |-> "logic", bad |-> TRUE, ill |-> TRUE, sg |-> FALSE]
\* bad = index out of range at run time; ill = the expression is ill-typed (select on a scalar, unknown member)
Ref(e, C) ==
    IF e.k = "id" THEN
        IF e.n \notin DOMAIN C.d.vars THEN BadRef
        ELSE LET ty == C.d.vars[e.n].ty
             IN  [v |-> e.n, el |-> 0, ud |-> ty.ud, lo |-> 0, pd |-> ty.pd, base |-> ty.base,
                  bad |-> FALSE, ill |-> FALSE, sg |-> ty.sg]
    ELSE
    LET r == [Ref(e.e, C) EXCEPT !.sg = FALSE] IN
    IF r.ill THEN r
    ELSE IF e.k = "idx" THEN
        LET i == IdxVal(e.i, C) IN
        IF r.ud # <<>> THEN
            LET stride == Prod(Tail(r.ud))
                oob    == i < 0 \/ i >= Head(r.ud)
            IN  [r EXCEPT !.el = IF oob THEN 0 ELSE r.el + i * stride, !.ud = Tail(r.ud), !.bad = r.bad \/ oob]
        ELSE IF r.pd # <<>> THEN
            LET ew  == PackW(C.d, Tail(r.pd), r.base)
                oob == i < 0 \/ i >= Head(r.pd)
            IN  [r EXCEPT !.lo = IF oob THEN 0 ELSE r.lo + i * ew, !.pd = Tail(r.pd), !.bad = r.bad \/ oob]
        ELSE [r EXCEPT !.ill = TRUE]
    ELSE IF e.k = "field" THEN
        IF r.ud # <<>> \/ r.pd # <<>> \/ ~HasField(C.d, r.base, e.f) THEN [r EXCEPT !.ill = TRUE]
        ELSE LET fty == FieldTy(C.d, r.base, e.f)
             IN  [r EXCEPT !.lo = r.lo + FieldOff(C.d, r.base, e.f), !.pd = fty.pd, !.base = fty.base]
    ELSE IF r.ud # <<>> \/ r.pd = <<>> THEN [r EXCEPT !.ill = TRUE]
    ELSE IF e.k = "range" THEN
        LET h   == IdxVal(e.h, C)
            l   == IdxVal(e.l, C)
            ew  == PackW(C.d, Tail(r.pd), r.base)
            oob == l < 0 \/ h < l \/ h >= Head(r.pd)
        IN  IF h < l /\ l >= 0 /\ h >= 0 THEN [r EXCEPT !.ill = TRUE]      \* reversed part select
            ELSE [r EXCEPT !.lo = IF oob THEN 0 ELSE r.lo + l * ew,
                           !.pd = <<IF oob THEN 1 ELSE h - l + 1>> \o Tail(r.pd), !.bad = r.bad \/ oob]
    ELSE \* psel  x[b +: w]
        LET b   == IdxVal(e.b, C)
            w   == IdxVal(e.w, C)
            ew  == PackW(C.d, Tail(r.pd), r.base)
            oob == b < 0 \/ b + w > Head(r.pd)
        IN  IF w < 1 \/ w >= 2^30 THEN [r EXCEPT !.ill = TRUE]
            ELSE [r EXCEPT !.lo = IF oob THEN 0 ELSE r.lo + b * ew, !.pd = <<w>> \o Tail(r.pd), !.bad = r.bad \/ oob]

RefW(d, r) == PackW(d, r.pd, r.base)

Read(e, C) ==
    IF IsLoopVar(e, C) THEN C.env[e.n]
    ELSE LET r == Ref(e, C)
             w == RefW(C.d, r)
         IN  IF r.ill \/ r.ud # <<>> THEN X(1)
             ELSE IF r.bad THEN X(w)
             ELSE SubSeq(C.st[r.v][r.el + 1], r.lo + 1, r.lo + w)

SelfW(e, C) ==
    CASE e.k = "num"  -> IF e.w = 0 THEN 32 ELSE e.w
      [] e.k \in RefK -> IF IsLoopVar(e, C) THEN 32
                         ELSE LET r == Ref(e, C) IN IF r.ill \/ r.ud # <<>> THEN 1 ELSE RefW(C.d, r)
      [] e.k = "cat"  -> FoldLeft(LAMBDA a, x : a + SelfW(x, C), 0, e.es)
      [] e.k = "rep"  -> LET n == IdxVal(e.n, C)
                         IN  (IF n < 0 \/ n >= 2^20 THEN 0 ELSE n) * FoldLeft(LAMBDA a, x : a + SelfW(x, C), 0, e.es)
      [] e.k = "cast" -> e.w
      [] e.k = "sel"  -> LET h == IdxVal(e.h, C)
                             l == IdxVal(e.l, C)
                         IN  IF l < 0 \/ h < l \/ h >= 2^20 THEN 1 ELSE h - l + 1
      [] e.k = "un"   -> IF e.op \in {"~", "-", "+"} THEN SelfW(e.e, C) ELSE 1
      [] e.k = "bin"  -> IF e.op \in Arith THEN Max2(SelfW(e.a, C), SelfW(e.b, C))
                         ELSE IF e.op \in {"<<", ">>", "**"} THEN SelfW(e.a, C) ELSE 1
      [] e.k = "cond" -> Max2(SelfW(e.a, C), SelfW(e.b, C))

Sgn(e, C) ==
    IF C.d.uns THEN FALSE ELSE
    CASE e.k = "num"  -> e.w = 0
      [] e.k = "id"   -> IF IsLoopVar(e, C) THEN FALSE ELSE Ref(e, C).sg
      [] e.k \in RefK \ {"id"} -> FALSE
      [] e.k \in {"cat", "rep", "sel"} -> FALSE
      [] e.k = "cast" -> Sgn(e.e, C)
      [] e.k = "un"   -> IF e.op \in {"~", "-", "+"} THEN Sgn(e.e, C) ELSE FALSE
      [] e.k = "bin"  -> IF e.op \in Arith THEN Sgn(e.a, C) /\ Sgn(e.b, C)
                         ELSE IF e.op \in {"<<", ">>", "**"} THEN Sgn(e.a, C) ELSE FALSE
      [] e.k = "cond" -> Sgn(e.a, C) /\ Sgn(e.b, C)

Bit(p) == IF p THEN <<1>> ELSE <<0>>
True(b) == \E i \in 1..Len(b) : b[i] = 1       \* 12.4: a condition that is zero, x or z is false

Eval(e, w, sg, C) ==
    CASE e.k = "num"  -> Resize(SubSeq(e.b, 1, IF e.w = 0 THEN 32 ELSE e.w), w, sg)
      [] e.k \in RefK -> Resize(Read(e, C), w, sg)
      [] e.k = "cat"  -> \* first operand most significant
            Resize(FoldLeft(LAMBDA acc, x : EvalSelf(x, C) \o acc, <<>>, e.es), w, sg)
      [] e.k = "rep"  ->
            LET n    == IdxVal(e.n, C)
                unit == FoldLeft(LAMBDA acc, x : EvalSelf(x, C) \o acc, <<>>, e.es)
            IN  IF n < 1 \/ n >= 2^20 THEN X(w)
                ELSE Resize(FoldLeft(LAMBDA acc, i : acc \o unit, <<>>, Idx(n)), w, sg)
      [] e.k = "cast" ->
            LET wi == Max2(e.w, SelfW(e.e, C))
                v  == Eval(e.e, wi, Sgn(e.e, C), C)
            IN  Resize(SubSeq(v, 1, e.w), w, sg)
      [] e.k = "sel"  ->      \* select on a concatenation: bits h..l of its self-determined value
            LET b == EvalSelf(e.e, C)
                h == IdxVal(e.h, C)
                l == IdxVal(e.l, C)
            IN  IF l < 0 \/ h < l \/ h >= Len(b) THEN X(w)
                ELSE Resize(SubSeq(b, l + 1, h + 1), w, FALSE)
      [] e.k = "un"   ->
            (CASE e.op \in {"~", "-"} ->
                    LET a == Eval(e.e, w, sg, C)
                    IN  IF HasX(a) THEN X(w) ELSE IF e.op = "~" THEN BNot(a) ELSE Neg(a)
               [] e.op = "+"  -> Eval(e.e, w, sg, C)
               [] e.op \in {"r&", "r|", "r^", "!"} ->
                    LET a == EvalSelf(e.e, C)
                    IN  IF HasX(a) THEN X(w)
                        ELSE Resize(<< CASE e.op = "r&" -> RedAnd(a)
                                         [] e.op = "r|" -> RedOr(a)
                                         [] e.op = "r^" -> RedXor(a)
                                         [] e.op = "!"  -> IF NonZero(a) THEN 0 ELSE 1 >>, w, FALSE))
      [] e.k = "bin"  ->
            IF e.op \in Arith THEN
                LET a == Eval(e.a, w, sg, C)
                    b == Eval(e.b, w, sg, C)
                IN  IF HasX(a) \/ HasX(b) THEN X(w) ELSE
                    (CASE e.op = "+" -> Add(a, b)
                       [] e.op = "-" -> Sub(a, b)
                       [] e.op = "*" -> Mul(a, b)
                       [] e.op = "/" -> Div(a, b, sg)
                       [] e.op = "%" -> Mod(a, b, sg)
                       [] e.op = "&" -> BAnd(a, b)
                       [] e.op = "|" -> BOr(a, b)
                       [] e.op = "^" -> BXor(a, b))
            ELSE IF e.op \in {"<<", ">>"} THEN
                LET a == Eval(e.a, w, sg, C)
                    n == UVal(e.b, C)
                IN  IF n < 0 \/ HasX(a) THEN X(w)   \* unknown shift amount / operand
                    ELSE IF e.op = "<<" THEN Shl(a, n) ELSE Shr(a, n)
            ELSE IF e.op = "**" THEN
                IF sg \/ Sgn(e.b, C) THEN X(w) ELSE Pow(Eval(e.a, w, sg, C), EvalSelf(e.b, C))
            ELSE IF e.op \in Cmp THEN
                LET wc == Max2(SelfW(e.a, C), SelfW(e.b, C))
                    sc == Sgn(e.a, C) /\ Sgn(e.b, C)
                    a  == Eval(e.a, wc, sc, C)
                    b  == Eval(e.b, wc, sc, C)
                    lt(x, y) == IF sc THEN SLt(x, y) ELSE ULt(x, y)
                IN  IF HasX(a) \/ HasX(b) THEN X(w) ELSE
                    Resize(Bit(CASE e.op = "==" -> a = b
                                 [] e.op = "!=" -> a # b
                                 [] e.op = "<"  -> lt(a, b)
                                 [] e.op = "<=" -> ~lt(b, a)
                                 [] e.op = ">"  -> lt(b, a)
                                 [] e.op = ">=" -> ~lt(a, b)), w, FALSE)
            ELSE \* && ||
                LET a == NonZero(EvalSelf(e.a, C))
                    b == NonZero(EvalSelf(e.b, C))
                IN  Resize(Bit(IF e.op = "&&" THEN a /\ b ELSE a \/ b), w, FALSE)
      [] e.k = "cond" ->
            LET c == EvalSelf(e.c, C)
            IN  IF HasX(c) THEN X(w) ELSE IF NonZero(c) THEN Eval(e.a, w, sg, C) ELSE Eval(e.b, w, sg, C)

\* value an lw-bit target receives from `rhs` (10.7: evaluated at max(lw, L(rhs)), then truncated)
AssignVal(lw, rhs, C) ==
    LET w == Max2(lw, SelfW(rhs, C)) IN SubSeq(Eval(rhs, w, Sgn(rhs, C), C), 1, lw)

(***************************************************************************)
(* Statements                                                              *)
(***************************************************************************)
Write(st, r, val) ==
    [st EXCEPT ![r.v][r.el + 1] = SubSeq(@, 1, r.lo) \o val \o SubSeq(@, r.lo + Len(val) + 1, Len(@))]

Ctx(d, st) == [d |-> d, st |-> st, env |-> <<>>, nb |-> <<>>, err |-> "ok"]

RECURSIVE Exec(_, _), Loop(_, _, _)

Assign(l, r, nonblocking, C) ==
    IF IsLoopVar(l, C) THEN
        [C EXCEPT !.env = [@ EXCEPT ![l.n] = AssignVal(32, r, C)]]
    ELSE
    LET ref == Ref(l, C)
        lw  == RefW(C.d, ref)
    IN  IF ref.ill THEN [C EXCEPT !.err = "ill-typed-target"]
        ELSE IF ref.ud # <<>> THEN [C EXCEPT !.err = "array-assignment"]
        ELSE IF ref.bad THEN [C EXCEPT !.err = "out-of-range-write:" \o ref.v]   \* (names the variable)
        ELSE LET val == AssignVal(lw, r, C)
             IN  IF nonblocking THEN [C EXCEPT !.nb = Append(@, <<ref, val>>)]
                 ELSE [C EXCEPT !.st = Write(@, ref, val)]

Exec(s, C) ==
    IF C.err # "ok" THEN C ELSE
    CASE s.k = "blk" -> FoldLeft(LAMBDA c, x : Exec(x, c), C, s.ss)
      [] s.k = "if"  -> IF True(EvalSelf(s.c, C)) THEN Exec(s.t, C) ELSE Exec(s.e, C)
      [] s.k = "ba"  -> Assign(s.l, s.r, FALSE, C)
      [] s.k = "nba" -> Assign(s.l, s.r, TRUE, C)
      [] s.k = "for" ->
            LET v  == [k |-> "id", n |-> s.v]
                C1 == IF s.decl THEN [C EXCEPT !.env = (s.v :> AssignVal(32, s.init, C)) @@ @]
                      ELSE Assign(v, s.init, FALSE, C)
                C2 == Loop(s, C1, 0)
            IN  IF s.decl THEN [C2 EXCEPT !.env = C.env] ELSE C2

\* One iteration of a for loop on acc = [C, done]: test the condition, run the body, step the variable.
LoopStep(s, acc) ==
    LET C == acc.C IN
    IF acc.done THEN acc
    ELSE IF C.err # "ok" \/ ~True(EvalSelf(s.cond, C)) THEN [acc EXCEPT !.done = TRUE]
    ELSE
        LET C1  == Exec(s.body, C)
            v   == [k |-> "id", n |-> s.v]
            C2  == Assign(v, s.step, FALSE, C1)
            old == Read(v, C1)
            new == Read(v, C2)
            \* the 32-bit loop variable passed zero / 2^32 and the condition still holds: the loop
            \* does not terminate within 2^31 iterations (an accepted PyMTL range never does that)
            wrap == /\ s.step.k = "bin" /\ ~HasX(old) /\ ~HasX(new)
                    /\ \/ s.step.op = "-" /\ ULt(old, new)
                       \/ s.step.op = "+" /\ ULt(new, old)
        IN  IF C1.err # "ok" THEN [C |-> C1, done |-> TRUE]
            ELSE IF C2.err # "ok" THEN [C |-> C2, done |-> TRUE]
            ELSE IF wrap /\ True(EvalSelf(s.cond, C2)) THEN [C |-> [C2 EXCEPT !.err = "loop-wraps"], done |-> TRUE]
            ELSE [C |-> C2, done |-> FALSE]

\* The iterations are run by a fold, LoopChunk at a time (n = iterations done so far): the recursion stays
\* shallow however long the loop runs (a deep Java stack makes every garbage collection of TLC slower).
LoopChunk == 16
Loop(s, C, n) ==
    LET r == FoldLeft(LAMBDA a, i : LoopStep(s, a), [C |-> C, done |-> FALSE], Idx(LoopChunk))
    IN  IF r.done THEN r.C
        ELSE IF n + LoopChunk > MaxIter THEN [r.C EXCEPT !.err = "loop-bound"]
        ELSE Loop(s, r.C, n + LoopChunk)

(***************************************************************************)
(* Processes: initial state, combinational settling, clock edge            *)
(***************************************************************************)
NElem(ty)   == Prod(ty.ud)
VarW(d, ty) == PackW(d, ty.pd, ty.base)

InitState(d) ==
    LET z  == [n \in DOMAIN d.vars |-> Fill(NElem(d.vars[n].ty), Zeros(VarW(d, d.vars[n].ty)))]
        setp(c, p) ==
            IF c.err # "ok" THEN c
            ELSE IF Len(p.init) # NElem(d.vars[p.n].ty) THEN [c EXCEPT !.err = "param-shape"]
            ELSE [c EXCEPT !.st = [@ EXCEPT ![p.n] =
                     [i \in 1..Len(p.init) |-> AssignVal(VarW(d, d.vars[p.n].ty), p.init[i], c)]]]
    IN  FoldLeft(setp, Ctx(d, z), d.params)

RunComb(d, st) ==
    LET c == FoldLeft(LAMBDA c, p : Exec(p.body, c), Ctx(d, st), d.comb)
    IN  IF c.err = "ok" /\ c.nb # <<>> THEN [c EXCEPT !.err = "nonblocking-in-comb"] ELSE c

RECURSIVE Settle(_, _, _)
Settle(d, st, n) ==
    LET c == RunComb(d, st)
    IN  IF c.err # "ok" THEN [st |-> c.st, err |-> c.err]
        ELSE IF c.st = st THEN [st |-> st, err |-> "ok"]
        ELSE IF n = 0 THEN [st |-> c.st, err |-> "no-fixed-point"]
        ELSE Settle(d, c.st, n - 1)
SettleAll(d, st) == Settle(d, st, Len(d.comb) + 1)

\* posedge clk: every always_ff block reads pre-edge values; non-blocking updates commit together
Edge(d, st) ==
    LET c == FoldLeft(LAMBDA c, p : Exec(p.body, c), Ctx(d, st), d.ff)
    IN  IF c.err # "ok" THEN [st |-> c.st, err |-> c.err]
        ELSE [st |-> FoldLeft(LAMBDA s, u : Write(s, u[1], u[2]), c.st, c.nb), err |-> "ok"]

(***************************************************************************)
(* OneDriver: every variable bit is driven by at most one of               *)
(* {top-level input port, localparam initialiser, one continuous           *)
(* assignment / port connection, one always block}.  The bits a process    *)
(* drives are those of the longest static prefix (11.5.3) of each of its   *)
(* assignment targets, any branch.                                         *)
(***************************************************************************)
RECURSIVE Static(_, _)
Static(e, C) ==
    CASE e.k = "num"  -> TRUE
      [] e.k = "id"   -> e.n \in DOMAIN C.d.vars /\ C.d.vars[e.n].kind = "param" /\ ~IsLoopVar(e, C)
      [] e.k = "cast" -> Static(e.e, C)
      [] e.k = "un"   -> Static(e.e, C)
      [] e.k = "bin"  -> Static(e.a, C) /\ Static(e.b, C)
      [] OTHER        -> FALSE

RECURSIVE ARef(_, _)
ARef(e, C) ==
    IF e.k = "id" THEN
        LET ty == C.d.vars[e.n].ty
        IN  [v |-> e.n, e0 |-> 0, cnt |-> Prod(ty.ud), ud |-> ty.ud, lo |-> 0, pd |-> ty.pd,
             base |-> ty.base, open |-> TRUE, none |-> FALSE]
    ELSE
    LET r == ARef(e.e, C) IN
    IF ~r.open THEN r
    ELSE IF e.k = "idx" THEN
        IF ~Static(e.i, C) THEN [r EXCEPT !.open = FALSE]
        ELSE LET i == IdxVal(e.i, C) IN
             \* a constant index outside the declared range selects nothing (7.4.6: such a write is a
             \* no-op; the behaviour clauses report it as out-of-range-write)
             IF r.ud # <<>> THEN
                 IF i < 0 \/ i >= Head(r.ud) THEN [r EXCEPT !.open = FALSE, !.none = TRUE]
                 ELSE [r EXCEPT !.e0 = r.e0 + i * Prod(Tail(r.ud)), !.cnt = Prod(Tail(r.ud)), !.ud = Tail(r.ud)]
             ELSE IF r.pd # <<>> /\ i >= 0 /\ i < Head(r.pd) THEN
                 [r EXCEPT !.lo = r.lo + i * PackW(C.d, Tail(r.pd), r.base), !.pd = Tail(r.pd)]
             ELSE IF r.pd # <<>> THEN [r EXCEPT !.open = FALSE, !.none = TRUE]
             ELSE [r EXCEPT !.open = FALSE]
    ELSE IF e.k = "field" THEN
        IF r.ud # <<>> \/ r.pd # <<>> \/ ~HasField(C.d, r.base, e.f) THEN [r EXCEPT !.open = FALSE]
        ELSE LET fty == FieldTy(C.d, r.base, e.f)
             IN  [r EXCEPT !.lo = r.lo + FieldOff(C.d, r.base, e.f), !.pd = fty.pd, !.base = fty.base]
    ELSE IF r.ud # <<>> \/ r.pd = <<>> THEN [r EXCEPT !.open = FALSE]
    ELSE IF e.k = "range" THEN
        IF ~(Static(e.h, C) /\ Static(e.l, C)) THEN [r EXCEPT !.open = FALSE]
        ELSE LET h == IdxVal(e.h, C)
                 l == IdxVal(e.l, C)
             IN  IF l < 0 \/ h < l \/ h >= Head(r.pd) THEN [r EXCEPT !.open = FALSE]
                 ELSE [r EXCEPT !.lo = r.lo + l * PackW(C.d, Tail(r.pd), r.base), !.pd = <<h - l + 1>> \o Tail(r.pd)]
    ELSE
        IF ~(Static(e.b, C) /\ Static(e.w, C)) THEN [r EXCEPT !.open = FALSE]
        ELSE LET b == IdxVal(e.b, C)
                 w == IdxVal(e.w, C)
             IN  IF b < 0 \/ w < 1 \/ b + w > Head(r.pd) THEN [r EXCEPT !.open = FALSE]
                 ELSE [r EXCEPT !.lo = r.lo + b * PackW(C.d, Tail(r.pd), r.base), !.pd = <<w>> \o Tail(r.pd)]

Target(e, C) ==
    LET r == ARef(e, C)
    IN  [v |-> IF r.none THEN "" ELSE r.v, e0 |-> r.e0, e1 |-> r.e0 + r.cnt - 1, lo |-> r.lo,
         hi |-> r.lo + PackW(C.d, r.pd, r.base) - 1]

RECURSIVE Targets(_, _)
Targets(s, C) ==
    CASE s.k = "blk" -> FoldLeft(LAMBDA a, x : a \o Targets(x, C), <<>>, s.ss)
      [] s.k = "if"  -> Targets(s.t, C) \o Targets(s.e, C)
      [] s.k = "for" -> (IF s.decl THEN <<>> ELSE <<Target([k |-> "id", n |-> s.v], C)>>)
                        \o Targets(s.body, IF s.decl THEN [C EXCEPT !.env = (s.v :> Zeros(32)) @@ @] ELSE C)
      [] OTHER       -> IF IsLoopVar(s.l, C) THEN <<>> ELSE <<Target(s.l, C)>>

Overlap(a, b) == a.v = b.v /\ a.e0 <= b.e1 /\ b.e0 <= a.e1 /\ a.lo <= b.hi /\ b.lo <= a.hi

\* result: 0 = every variable has at most one driver per bit; k > 0 = d.varorder[k] has two
Drivers(d) ==
    LET C0     == InitState(d)
        whole(n) == LET ty == d.vars[n].ty
                    IN  [v |-> n, e0 |-> 0, e1 |-> Prod(ty.ud) - 1, lo |-> 0, hi |-> VarW(d, ty) - 1]
        procs  == d.comb \o d.ff
        np     == Len(procs)
        \* table: variable -> sequence of <<driver id, target>>
        add(tab, id, ts) == FoldLeft(LAMBDA m, t : IF t.v = "" THEN m ELSE [m EXCEPT ![t.v] = Append(@, <<id, t>>)], tab, ts)
        tab0   == [n \in DOMAIN d.vars |->
                     IF d.vars[n].kind \in {"in", "param"} THEN << <<0, whole(n)>> >> ELSE <<>>]
        tab    == FoldLeft(LAMBDA m, i : add(m, i, Targets(procs[i].body, C0)), tab0, Idx(np))
        clash(n) == \E i, j \in 1..Len(tab[n]) :
                        i < j /\ tab[n][i][1] # tab[n][j][1] /\ Overlap(tab[n][i][2], tab[n][j][2])
        bad    == {k \in 1..Len(d.varorder) : clash(d.varorder[k])}
    IN  [multi  |-> IF bad = {} THEN 0 ELSE CHOOSE k \in bad : \A k2 \in bad : k <= k2,
         nmulti |-> Cardinality(bad),
         undriven |-> Cardinality({k \in 1..Len(d.varorder) : tab[d.varorder[k]] = <<>>})]

=============================================================================
