#!/usr/bin/env python3
"""Print the prompt for a seeding sub-agent: tools/seed_prompt.py C07 /tmp/wt_c07 [round]
(round 2: the summaries of the changes already kept for that property are listed as ideas to avoid; the
output directory becomes /tmp/seed_<id>_r<round>)"""
import json, sys
pid, wt = sys.argv[1], sys.argv[2]
rnd = sys.argv[3] if len(sys.argv) > 3 else ''
import glob, os
prev = []
if rnd:
    for d in sorted(glob.glob('/verif/seeded/%s-*' % pid)):
        try:
            prev.append(json.load(open(os.path.join(d, 'meta.json'))).get('summary', '')[:300])
        except Exception:
            pass
p = [json.loads(l) for l in open('/verif/properties.jsonl') if json.loads(l)['id'] == pid][0]
OUT = "/tmp/seed_" + pid.lower() + (("_r" + rnd) if rnd else "")
text = (f"""You are helping to evaluate how well a verification effort detects regressions in the open-source Python hardware DSL pymtl3. You get ONE semantic property of pymtl3 and your own scratch git worktree of the repository at {wt} (a checkout of the current HEAD; work ONLY inside {wt} and in /tmp/seed_{pid.lower()} for your own files; never touch /repo or /verif, and do not read anything under /verif -- your work must be independent of the existing verification machinery).

Property {pid}: {p['title']}
Statement: {p['statement']}
Quantifier: {p['quantifier']['text']}

Task: produce TWO independent changes (call them A and B; different files or clearly different mechanisms) to pymtl3's source (under {wt}/pymtl3 or {wt}/examples, non-test files only) such that each one
  * BREAKS the property above (for some input / design / schedule / history),
  * still lets the package import, and the repository's existing test suite still passes exactly as before the change (run the relevant test directories first, then the whole suite once per change:  cd {wt} && PYTHONPATH={wt} /venv/bin/python -m pytest -q -p no:cacheprovider --timeout=900 --continue-on-collection-errors 2>&1 | tail -5 ; on the unchanged tree 1631 tests pass and 303 fail because Verilator is not installed -- the set of passing tests must not shrink; compare the failing-test lists with the unchanged tree if the counts differ),
  * is REALISTIC (the kind of slip a maintainer could make in a refactoring or optimisation: an off-by-one, a dropped case, a wrong variable, an early exit, a cache keyed too coarsely, ...) and SUBTLE: it must need something specific to manifest -- a particular interleaving / schedule / tie-break, a multi-step sequence of operations, an unusual but legal input (width, shape, nesting, boundary value), or two cooperating sites that each look fine alone -- NOT something ordinary use would expose at once. Do not make changes that only affect error messages or performance.
For each change deliver, in /tmp/seed_{pid.lower()}/A and /tmp/seed_{pid.lower()}/B:
  * patch.diff   -- `git -C {wt} diff` of exactly that change alone (reset the worktree between A and B: `git -C {wt} checkout -- .`),
  * demo.py      -- a small stand-alone program using only pymtl3's public API that exits 0 on the unchanged tree and exits non-zero (assertion failure showing the broken property) with the change applied; run as `cd /tmp/seed_{pid.lower()}/A && PYTHONPATH={wt} /venv/bin/python demo.py` (components with update blocks must be defined in a real .py file -- demo.py itself is fine),
  * meta.json    -- {{"property": "{pid}", "summary": "...", "files": [...], "needs_to_manifest": "...what specific input/schedule/sequence is needed...", "tests_run": "...command and result...", "why_tests_miss_it": "..."}}.
Run `git -C {wt} clean -fdq` to remove files the tests write (e.g. *__pickled.v) and leave the worktree with NO modification at the end (`git -C {wt} checkout -- .`); the patches live only in /tmp/seed_{pid.lower()}. Python: /venv/bin/python (pymtl3 is imported from PYTHONPATH first). No network. In your final message list for A and B: the idea, the diff, the demo output with and without the change, and the full-suite result.""")
text = text.replace("/tmp/seed_" + pid.lower(), OUT)
if prev:
    text += "\n\nOther people have already produced the following changes for this property. Produce changes with DIFFERENT mechanisms, in different functions (ideally different files), and prefer parts of the implementation behind this property that these do not touch:\n" + "\n".join(" - " + p for p in prev)
print(text)
