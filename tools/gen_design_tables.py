#!/usr/bin/env python3
"""Regenerate the generated tables of DESIGN.md (between <!-- BEGIN:x --> / <!-- END:x --> markers):
  defects   from known_findings.jsonl (fixed: lines and finding entries)
  seeded    from seeded/*/meta.json + eval.json
usage: tools/gen_design_tables.py            (rewrites DESIGN.md in place)"""
import glob
import json
import os
import re
import subprocess

V = os.path.dirname(os.path.dirname(os.path.abspath(__file__)))


def esc(s):
    return s.replace("|", "\\|").replace("\n", " ")


def defects():
    fixed, findings = [], []
    for line in open(os.path.join(V, "known_findings.jsonl")):
        line = line.strip()
        if line.startswith("fixed:"):
            m = re.match(r"fixed: property=(C\d+) (\w+) (.*)", line)
            if m:
                fixed.append(m.groups())
        elif line.startswith("{"):
            findings.append(json.loads(line))
    out = ["### 5.1 Genuine defects repaired (`fix:` commits in /repo, in the order they were made)", "",
           "| # | Property | Commit | Subject of the commit | Failing input / history (what the check showed) |", "|---|---|---|---|---|"]
    for i, (pid, c, what) in enumerate(fixed, 1):
        subj = subprocess.run(["git", "-C", "/repo", "log", "-1", "--format=%s", c], stdout=subprocess.PIPE,
                              stderr=subprocess.DEVNULL, text=True).stdout.strip()
        out.append("| %d | %s | `%s` | %s | %s |" % (i, pid, c, esc(subj), esc(what)))
    out += ["", "### 5.2 Genuine defects recorded as known findings (not repaired: no small safe repair)", "",
            "| Property | match (violation key) | What fails |", "|---|---|---|"]
    for f in findings:
        out.append("| %s | `%s` | %s |" % (f["property"], esc(str(f["match"])), esc(f["what"])))
    return "\n".join(out)


def seeded():
    out = ["| Seeded change | Breaks | Change (one line) | Needs to manifest | Caught by (quick tier, exit 1) | Missed by |", "|---|---|---|---|---|---|"]
    for d in sorted(glob.glob(os.path.join(V, "seeded", "*"))):
        mp, ep = os.path.join(d, "meta.json"), os.path.join(d, "eval.json")
        if not os.path.exists(mp):
            continue
        m = json.load(open(mp))
        e = json.load(open(ep)) if os.path.exists(ep) else {"checks": {}}
        caught = [k for k, v in sorted(e["checks"].items()) if v.get("exit") == 1]
        missed = [k for k, v in sorted(e["checks"].items()) if v.get("exit") == 0]
        other = ["%s(exit %s)" % (k, v.get("exit")) for k, v in sorted(e["checks"].items()) if v.get("exit") not in (0, 1)]
        summ = m.get("summary", "")
        summ = summ[:220] + ("…" if len(summ) > 220 else "")
        need = m.get("needs_to_manifest", "")
        need = need[:200] + ("…" if len(need) > 200 else "")
        note = ""
        if e.get("demo_patched_exit") in (0, None) or e.get("baseline_exit") not in (0, None):
            note = " (demo/baseline: %s/%s)" % (e.get("demo_patched_exit"), e.get("baseline_exit"))
        out.append("| %s | %s | %s | %s | %s | %s |" % (os.path.basename(d) + note, m.get("property"), esc(summ), esc(need),
                                                   ", ".join(caught) or "–", ", ".join(missed + other) or "–"))
    return "\n".join(out)


def main():
    p = os.path.join(V, "DESIGN.md")
    s = open(p).read()
    for tag, fn in (("defects", defects), ("seeded", seeded)):
        b, e = "<!-- BEGIN:%s -->" % tag, "<!-- END:%s -->" % tag
        if b in s and e in s:
            s = s[:s.index(b) + len(b)] + "\n" + fn() + "\n" + s[s.index(e):]
    open(p, "w").write(s)


if __name__ == "__main__":
    main()
