#!/bin/bash
# usage: tools/seed_sweep.sh "C01 C02" "1 2 3" [tier]   -- runs the checks with VERIF_SEED on /repo, evidence redirected
tier=${3:-quick}
for sd in $2; do for id in $1; do
  out=$(VERIF_SEED=$sd VERIF_EVIDENCE_DIR=/tmp/sweep_ev VERIF_REPLAY_DIR=/tmp/sweep_rp/$id.$sd /venv/bin/python /verif/harness/check.py $id --tier $tier 2>&1)
  rc=$?
  echo "seed=$sd $id exit=$rc $(echo "$out" | tail -1 | cut -c1-120)"
  if [ $rc -ne 0 ]; then echo "$out" | grep -E "what:|MACHINERY|Error" | head -4 | cut -c1-300; fi
done; done
