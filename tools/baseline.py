#!/usr/bin/env python3
"""Run the repository's pinned test suite (guard off) and compare with /root/.vp/BASELINE.json.
usage: baseline.py [repo]   -- exits 0 iff every stable_pass test still passes."""
import json, os, subprocess, sys, tempfile, xml.etree.ElementTree as ET
repo = sys.argv[1] if len(sys.argv) > 1 else "/repo"
base = json.load(open("/root/.vp/BASELINE.json"))
d = tempfile.mkdtemp(prefix="baseline_")
xml = os.path.join(d, "junit.xml")
env = dict(os.environ); env.pop("PYMTL3_VERIF", None); env["PYTHONPATH"] = repo
subprocess.run(
               ["/venv/bin/python", "-m", "pytest", "-q", "-p", "no:cacheprovider", "--timeout=900",
                "--continue-on-collection-errors", "--junitxml=" + xml],
               cwd=repo, env=env, stdout=open(os.path.join(d, "out.txt"), "w"), stderr=subprocess.STDOUT)
passed = set()
for tc in ET.parse(xml).getroot().iter("testcase"):
    if not any(c.tag in ("failure", "error", "skipped") for c in tc):
        passed.add("%s::%s" % (tc.get("classname"), tc.get("name")))
missing = sorted(set(base["stable_pass"]) - passed)
print("passed %d, stable_pass %d, stable tests not passing now: %d" % (len(passed), len(base["stable_pass"]), len(missing)))
for m in missing[:40]:
    print("  NOT PASSING:", m)
print("log:", os.path.join(d, "out.txt"))
subprocess.run(["git", "-C", repo, "clean", "-fdq", "-e", "*.egg-info"])
sys.exit(1 if missing else 0)
