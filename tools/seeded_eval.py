#!/usr/bin/env python3
"""Evaluate seeded changes against the checks.

  tools/seeded_eval.py <seed dir> [--checks C07,C01] [--tier quick] [--baseline] [--timeout 1800]

<seed dir> holds patch.diff, demo.py, meta.json (property).  A scratch worktree of /repo's HEAD is created
under /tmp, the patch applied there, and
  1. demo.py is run against /repo (must exit 0) and against the patched tree (must exit != 0);
  2. with --baseline the repository's pinned suite is run on the patched tree (tools/baseline.py);
  3. each requested check (default: the property of meta.json) is run with VERIF_REPO=<patched tree>,
     evidence and replay files redirected to a scratch dir (the committed evidence is never touched).
The worktree is removed afterwards.  Result: one JSON line on stdout and <seed dir>/eval.json.
"""
import argparse
import json
import os
import shutil
import subprocess
import sys
import tempfile
import time

VERIF = os.path.dirname(os.path.dirname(os.path.abspath(__file__)))


def sh(cmd, **kw):
    return subprocess.run(cmd, stdout=subprocess.PIPE, stderr=subprocess.STDOUT, text=True, **kw)


def main():
    ap = argparse.ArgumentParser()
    ap.add_argument("seed")
    ap.add_argument("--checks", default="")
    ap.add_argument("--tier", default="quick")
    ap.add_argument("--baseline", action="store_true")
    ap.add_argument("--timeout", type=int, default=2400)
    a = ap.parse_args()
    seed = os.path.abspath(a.seed)
    meta = json.load(open(os.path.join(seed, "meta.json")))
    checks = [c for c in a.checks.split(",") if c] or [meta["property"]]
    wt = tempfile.mkdtemp(prefix="se_wt_")
    os.rmdir(wt)
    out = {"seed": seed, "property": meta["property"], "checks": {}}
    r = sh(["git", "-C", "/repo", "worktree", "add", "-q", "--detach", wt, "HEAD"])
    if r.returncode:
        print(r.stdout)
        return 2
    scratch = tempfile.mkdtemp(prefix="se_ev_")
    try:
        r = sh(["git", "-C", wt, "apply", os.path.join(seed, "patch.diff")])
        if r.returncode:
            out["apply_error"] = r.stdout[-2000:]
            print(json.dumps(out))
            return 2
        env = dict(os.environ)
        demo = os.path.join(seed, "demo.py")
        if os.path.exists(demo):
            d0 = sh(["/venv/bin/python", demo], cwd=scratch, env=dict(env, PYTHONPATH="/repo"), timeout=600)
            d1 = sh(["/venv/bin/python", demo], cwd=scratch, env=dict(env, PYTHONPATH=wt), timeout=600)
            out["demo_unchanged_exit"] = d0.returncode
            out["demo_patched_exit"] = d1.returncode
            out["demo_patched_tail"] = d1.stdout[-600:]
        if a.baseline:
            b = sh(["python3", os.path.join(VERIF, "tools", "baseline.py"), wt], timeout=3600)
            out["baseline_exit"] = b.returncode
            out["baseline_tail"] = b.stdout[-800:]
        for c in checks:
            t0 = time.time()
            e = dict(env, VERIF_REPO=wt, VERIF_EVIDENCE_DIR=os.path.join(scratch, "evidence"),
                     VERIF_REPLAY_DIR=os.path.join(scratch, "replay"))
            try:
                k = sh(["/venv/bin/python", os.path.join(VERIF, "harness", "check.py"), c, "--tier", a.tier],
                       cwd=VERIF, env=e, timeout=a.timeout)
                lines = [l for l in k.stdout.splitlines() if l.startswith("VIOLATION") or l.startswith("  what:")
                         or l.startswith("MACHINERY") or l.startswith("KNOWN-FINDING")]
                out["checks"][c] = {"exit": k.returncode, "wall_s": round(time.time() - t0, 1),
                                    "lines": [l[:400] for l in lines[:8]], "tail": k.stdout[-300:]}
            except subprocess.TimeoutExpired:
                out["checks"][c] = {"exit": "timeout", "wall_s": round(time.time() - t0, 1)}
    finally:
        sh(["git", "-C", "/repo", "worktree", "remove", "--force", wt])
        shutil.rmtree(wt, ignore_errors=True)
        shutil.rmtree(scratch, ignore_errors=True)
    ej = os.path.join(seed, "eval.json")
    if os.path.exists(ej):                      # accumulate results of several invocations
        try:
            prev = json.load(open(ej))
            for k, v in prev.items():
                if k == "checks":
                    out["checks"] = dict(v, **out["checks"])
                elif k not in out:
                    out[k] = v
        except ValueError:
            pass
    out["repo_head"] = sh(["git", "-C", "/repo", "rev-parse", "--short", "HEAD"]).stdout.strip()
    json.dump(out, open(ej, "w"), indent=1)
    print(json.dumps(out))
    return 0


if __name__ == "__main__":
    sys.exit(main())
